"""C14 — symmetric encryption wrapper (AES-CBC + PKCS7): correct decryption, fixed expansion, fresh IV,
wrong-key decryption never returns the message, declared lengths enforced.

1. TLC checks the model-level theorems of spec/prim/SKE.tla on MC_SKE (PKCS7 Unpad(Pad(m)) = m, the
   image of Pad is exactly ValidPad, the length formula, the framing offsets with a toy core).
2. A driver runs short scripts (ctor / enc / dec) on the real class returned by
   get_symmetric_encryption_implementation('AES-CBC').  `Cipher` and `os` as seen from the aes module
   are module-attribute proxies that record every core call (direction, key, iv, input, result) and
   every random draw made during a call.  No edit of /repo.
3. TLC validates every recorded trace against Trace_SKE (Layer A = the property; Layer B = the
   code-shaped extras, drift only).
"""
import json
import random
import sys
import time

from common import (MachineryError, b2s, finish, pmap, run_tlc, seed, tier)
import prim_common as pc

PROP = "C14"
KEYLENS = (16, 24, 32)
UNL = -1


def ctlen(n):
    return 16 + 16 * (n // 16 + 1)


# ---------------------------------------------------------------------------
# recorder: module-attribute proxies in toolkit.symmetric_encryption.aes
# ---------------------------------------------------------------------------

class Rec:
    def __init__(self):
        self.core = []
        self.rng = []
        self.on = False

    def reset(self):
        self.core = []
        self.rng = []


REC = Rec()
_REAL = {}


class _Ctx:
    def __init__(self, real, rec):
        self._real = real
        self._rec = rec

    def update(self, data):
        out = self._real.update(data)
        self._rec["inp"] += bytes(data)
        self._rec["res"] += bytes(out)
        return out

    def finalize(self):
        out = self._real.finalize()
        self._rec["res"] += bytes(out)
        self._rec["fin"] = True
        return out

    def __getattr__(self, name):
        return getattr(self._real, name)


class _CipherProxy:
    def __init__(self, real, algorithm, mode):
        self._real = real
        self._alg = algorithm
        self._mode = mode

    def _start(self, direction):
        rec = {"dir": direction, "alg": type(self._alg).__name__, "mode": type(self._mode).__name__,
               "k": bytes(getattr(self._alg, "key", b"")),
               "iv": bytes(getattr(self._mode, "initialization_vector", b"") or b""),
               "inp": b"", "res": b"", "fin": False}
        if REC.on:
            REC.core.append(rec)
        return rec

    def encryptor(self):
        return _Ctx(self._real.encryptor(), self._start("enc"))

    def decryptor(self):
        return _Ctx(self._real.decryptor(), self._start("dec"))

    def __getattr__(self, name):
        return getattr(self._real, name)


def _cipher_factory(algorithm, mode, *a, **kw):
    return _CipherProxy(_REAL["Cipher"](algorithm, mode, *a, **kw), algorithm, mode)


class _OsProxy:
    def __init__(self, real):
        self._real = real

    def urandom(self, n):
        out = self._real.urandom(n)
        if REC.on:
            REC.rng.append(bytes(out))
        return out

    def __getattr__(self, name):
        return getattr(self._real, name)


def _urandom_rec(n):
    out = _REAL["urandom"](n)
    if REC.on:
        REC.rng.append(bytes(out))
    return out


def install():
    """Import the implementation through its public getter and put the proxies into its module."""
    pc.setup_env()
    from toolkit.symmetric_encryption import get_symmetric_encryption_implementation
    cls = get_symmetric_encryption_implementation("AES-CBC")
    mod = sys.modules[cls.__module__]
    if "Cipher" in _REAL:
        return cls
    # the recorders only feed Layer B (drift): a module that reaches its cipher or its randomness some other way is
    # judged by Layer A all the same, so a missing attribute is not an error
    if hasattr(mod, "Cipher"):
        _REAL["Cipher"] = mod.Cipher
        mod.Cipher = _cipher_factory
    else:
        _REAL["Cipher"] = None
    seen_rng = False
    if hasattr(mod, "os"):
        _REAL["os"] = mod.os
        mod.os = _OsProxy(mod.os)
        seen_rng = True
    if hasattr(mod, "urandom"):
        _REAL["urandom"] = mod.urandom
        mod.urandom = _urandom_rec
        seen_rng = True
    return cls


def ref_cbc(c):
    """What real AES-CBC gives on the recorded (k, iv, input): independent of the proxy path."""
    from cryptography.hazmat.primitives.ciphers import algorithms, modes
    try:
        from cryptography.hazmat.primitives.ciphers import Cipher as _RealCipher
        ci = (_REAL.get("Cipher") or _RealCipher)(algorithms.AES(c["k"]), modes.CBC(c["iv"]))
        x = ci.encryptor() if c["dir"] == "enc" else ci.decryptor()
        return b2s(x.update(c["inp"]) + x.finalize())
    except Exception:
        return [-1]


# ---------------------------------------------------------------------------
# script execution -> events
# ---------------------------------------------------------------------------

def _event(op, decl, **kw):
    e = {"op": op, "decl": decl, "k": [], "m": [], "ct": [], "out": "", "res": [], "rng": [], "core": []}
    e.update(kw)
    return e


def _core_json():
    out = []
    for c in REC.core:
        out.append({"dir": c["dir"], "alg": c["alg"], "mode": c["mode"], "k": b2s(c["k"]), "iv": b2s(c["iv"]),
                    "inp": b2s(c["inp"]), "res": b2s(c["res"]), "fin": c["fin"], "ref": ref_cbc(c)})
    return out


def _mutate(ct, mut):
    if not mut:
        return ct
    if mut == "trunc16":
        return ct[:-16]
    if mut == "ext16":
        return ct + bytes(16)
    if mut == "trunc1":
        return ct[:-1]
    if mut == "ext1":
        return ct + b"\x00"
    if mut == "fliplast":
        return ct[:-1] + bytes([ct[-1] ^ 1])
    if mut == "flipiv":
        return bytes([ct[0] ^ 0x80]) + ct[1:]
    if mut == "ivonly":
        return ct[:16]
    raise MachineryError("unknown mutation " + mut)


def run_script(script):
    cls = install()
    ev = []
    inst = None
    decl = None
    cts = {}
    for i, st in enumerate(script["steps"]):
        op = st["op"]
        if op == "ctor":
            decl = dict(st["decl"])
            try:
                inst = cls(key_length=decl["key"], cipher_length=decl["ct"], message_length=decl["msg"])
                out = "ok"
            except Exception as ex:   # an observation
                inst = None
                out = pc.outcome_of(ex)
            ev.append(_event("ctor", decl, out=out))
            if inst is None:
                break
            continue
        if inst is None:
            raise MachineryError("script uses an instance before ctor")
        k = pc.unhx(st["k"])
        if op == "enc":
            m = pc.unhx(st["m"])
            REC.reset()
            REC.on = True
            try:
                ct = inst.Encrypt(k, m)
                out = "ok"
            except Exception as ex:
                ct, out = None, pc.outcome_of(ex)
            finally:
                REC.on = False
            if out == "ok" and not isinstance(ct, (bytes, bytearray)):
                out, ct = "badtype:" + type(ct).__name__, None
            if ct is not None:
                cts[i] = bytes(ct)
            ev.append(_event("enc", decl, k=b2s(k), m=b2s(m), ct=b2s(ct or b""), out=out,
                             rng=[b2s(r) for r in REC.rng], core=_core_json()))
        elif op == "encmany":
            # the same (k, m) encrypted n times on this one object: every ciphertext has to be new (an IV source that
            # cycles, however long its period below n, shows here)
            m = pc.unhx(st["m"])
            out, many = "ok", []
            try:
                for _ in range(st["n"]):
                    c = inst.Encrypt(k, m)
                    if not isinstance(c, (bytes, bytearray)):
                        out = "badtype:" + type(c).__name__
                        break
                    many.append(b2s(bytes(c)))
            except Exception as ex:
                out = pc.outcome_of(ex)
            ev.append(_event("encmany", decl, k=b2s(k), m=b2s(m), cts=many, n=st["n"], out=out))
        elif op == "dec":
            src = st["ct"]
            if isinstance(src, dict):
                if src["ref"] not in cts:
                    continue          # the encryption it refers to did not produce a ciphertext
                ct = _mutate(cts[src["ref"]], src.get("mut"))
            else:
                ct = pc.unhx(src)
            REC.reset()
            REC.on = True
            try:
                res = inst.Decrypt(k, ct)
                out = "ok"
            except Exception as ex:
                res, out = None, pc.outcome_of(ex)
            finally:
                REC.on = False
            if out == "ok" and not isinstance(res, (bytes, bytearray)):
                out, res = "badtype:" + type(res).__name__, None
            ev.append(_event("dec", decl, k=b2s(k), ct=b2s(ct), res=b2s(res or b""), out=out,
                             rng=[b2s(r) for r in REC.rng], core=_core_json()))
        else:
            raise MachineryError("unknown step " + op)
    return ev


# ---------------------------------------------------------------------------
# script generation
# ---------------------------------------------------------------------------

def _rb(rnd, n):
    return bytes(rnd.getrandbits(8) for _ in range(n))


def _msg(rnd, n, variant):
    """Message contents that matter to PKCS7: random / zeros / bytes equal to the padding value the
    message would get / ending in something that is itself a valid padding."""
    if n == 0:
        return b""
    if variant == 0:
        return _rb(rnd, n)
    if variant == 1:
        return bytes(n)
    if variant == 2:
        return bytes([16 - n % 16]) * n
    t = rnd.randint(1, min(16, n))
    return _rb(rnd, n - t) + bytes([t]) * t


def _otherkey(rnd, k):
    while True:
        k2 = _rb(rnd, len(k))
        if k2 != k:
            return k2


def _flipkey(rnd, k):
    i = rnd.randrange(len(k))
    return k[:i] + bytes([k[i] ^ (1 << rnd.randrange(8))]) + k[i + 1:]


def D(key, msg=UNL, ct=UNL):
    return {"key": key, "msg": msg, "ct": ct}


def s_roundtrip(tid, rnd, kl, ml, variant, decl=None):
    k = _rb(rnd, kl)
    m = _msg(rnd, ml, variant)
    x = pc.hx
    return {"tid": tid, "kind": "roundtrip", "klen": kl, "mlen": ml, "variant": variant, "steps": [
        {"op": "ctor", "decl": decl or D(kl)},
        {"op": "enc", "k": x(k), "m": x(m)},
        {"op": "enc", "k": x(k), "m": x(m)},
        {"op": "dec", "k": x(k), "ct": {"ref": 1}},
        {"op": "dec", "k": x(k), "ct": {"ref": 2}},
        {"op": "dec", "k": x(_otherkey(rnd, k)), "ct": {"ref": 1}},
        {"op": "dec", "k": x(_flipkey(rnd, k)), "ct": {"ref": 2}},
    ]}


def s_declared(tid, rnd, kl, L):
    """Instance with all three lengths declared consistently; every way of breaking one of them."""
    x = pc.hx
    k = _rb(rnd, kl)
    m = _rb(rnd, L)
    otherlen = [a for a in KEYLENS if a != kl]
    steps = [
        {"op": "ctor", "decl": D(kl, L, ctlen(L))},
        {"op": "enc", "k": x(k), "m": x(m)},                                      # 1 ok
        {"op": "dec", "k": x(k), "ct": {"ref": 1}},                               # ok
        {"op": "enc", "k": x(k), "m": x(m + b"\x00")},                            # message too long
        {"op": "enc", "k": x(_rb(rnd, otherlen[0])), "m": x(m)},                  # permitted but not declared key length
        {"op": "enc", "k": x(k[:-1]), "m": x(m)},
        {"op": "enc", "k": x(k + b"\x01"), "m": x(m)},
        {"op": "enc", "k": x(b""), "m": x(m)},
        {"op": "dec", "k": x(k), "ct": {"ref": 1, "mut": "trunc16"}},             # ciphertext too short
        {"op": "dec", "k": x(k), "ct": {"ref": 1, "mut": "ext16"}},               # too long
        {"op": "dec", "k": x(k), "ct": {"ref": 1, "mut": "ext1"}},
        {"op": "dec", "k": x(_rb(rnd, otherlen[1])), "ct": {"ref": 1}},           # wrong key length
        {"op": "dec", "k": x(k[:-1]), "ct": {"ref": 1}},
        {"op": "dec", "k": x(_otherkey(rnd, k)), "ct": {"ref": 1}},               # right lengths, wrong key
    ]
    if L > 0:
        steps.insert(4, {"op": "enc", "k": x(k), "m": x(m[:-1])})                 # message too short
        steps.insert(5, {"op": "enc", "k": x(k), "m": x(b"")})
    return {"tid": tid, "kind": "declared", "klen": kl, "mlen": L, "steps": steps}


def s_partial(tid, rnd, kl, decl, lens):
    """Partially / inconsistently declared instances: the contract is judged call by call."""
    x = pc.hx
    k = _rb(rnd, kl)
    steps = [{"op": "ctor", "decl": decl}]
    for n in lens:
        steps.append({"op": "enc", "k": x(k), "m": x(_rb(rnd, n))})
        steps.append({"op": "dec", "k": x(k), "ct": {"ref": len(steps) - 1}})
        steps.append({"op": "dec", "k": x(_otherkey(rnd, k)), "ct": {"ref": len(steps) - 2}})
    return {"tid": tid, "kind": "partial", "klen": kl, "steps": steps}


def s_keylen(tid, rnd, kl):
    """Undeclared message / cipher lengths, key of a wrong length on both operations."""
    x = pc.hx
    k = _rb(rnd, kl)
    m = _rb(rnd, rnd.randint(0, 40))
    steps = [{"op": "ctor", "decl": D(kl)}, {"op": "enc", "k": x(k), "m": x(m)}]
    for n in sorted({0, 1, 8, kl - 1, kl + 1, 15, 16, 17, 24, 32, 33, 48, 64} - {kl}):
        steps.append({"op": "enc", "k": x(_rb(rnd, n)), "m": x(m)})
        steps.append({"op": "dec", "k": x(_rb(rnd, n)), "ct": {"ref": 1}})
    return {"tid": tid, "kind": "keylen", "klen": kl, "steps": steps}


def s_many(tid, rnd, kl, ml, n):
    """one object, one key, one message, n encryptions in a row (then one more ordinary round trip)"""
    x = pc.hx
    k = _rb(rnd, kl)
    m = _rb(rnd, ml)
    return {"tid": tid, "kind": "many", "klen": kl, "mlen": ml, "steps": [
        {"op": "ctor", "decl": D(kl)},
        {"op": "enc", "k": x(k), "m": x(m)},
        {"op": "encmany", "k": x(k), "m": x(m), "n": n},
        {"op": "enc", "k": x(k), "m": x(m)},
        {"op": "dec", "k": x(k), "ct": {"ref": 3}},
    ]}


def s_ctor(tid, decl):
    steps = [{"op": "ctor", "decl": decl}]
    if decl["key"] not in KEYLENS and decl["key"] >= 0:
        # should the constructor let a key length pass that is not permitted, Encrypt has to refuse a key of that length
        steps.append({"op": "enc", "k": pc.hx(bytes(range(1, decl["key"] + 1)) if decl["key"] < 250 else b"k" * decl["key"]),
                      "m": pc.hx(b"m" * (decl["msg"] if decl["msg"] not in (UNL, None) and decl["msg"] >= 0 else 5))})
    return {"tid": tid, "kind": "ctor", "steps": steps}


def s_empty_wrongkey(tid, rnd, kl, n, ml=0):
    """Wrong-key decryptions of the empty (or a one-block) message: a wrapper that swallows the padding
    error and returns b'' (or the raw block) is caught here."""
    x = pc.hx
    k = _rb(rnd, kl)
    steps = [{"op": "ctor", "decl": D(kl)}, {"op": "enc", "k": x(k), "m": x(_rb(rnd, ml))}]
    for _ in range(n):
        steps.append({"op": "dec", "k": x(_otherkey(rnd, k)), "ct": {"ref": 1}})
    return {"tid": tid, "kind": "wrongkey", "klen": kl, "mlen": ml, "steps": steps}


def s_malformed(tid, rnd, kl):
    """Ciphertexts that are not of the form iv + blocks, and tampered ones (Layer B only: ValueError)."""
    x = pc.hx
    k = _rb(rnd, kl)
    steps = [{"op": "ctor", "decl": D(kl)}, {"op": "enc", "k": x(k), "m": x(_rb(rnd, 20))}]
    for mut in ("trunc1", "ext1", "ivonly", "fliplast", "flipiv", "trunc16"):
        steps.append({"op": "dec", "k": x(k), "ct": {"ref": 1, "mut": mut}})
    for n in (0, 1, 15, 17, 31, 33):
        steps.append({"op": "dec", "k": x(k), "ct": x(_rb(rnd, n))})
    return {"tid": tid, "kind": "malformed", "klen": kl, "steps": steps}


def gen_scripts(tr, rnd):
    S = []
    thorough = tr == "thorough"
    reps = 3 if thorough else 1
    for kl in KEYLENS:
        for ml in range(0, 81):
            for r in range(reps):
                for v in (range(4) if thorough else [(ml + kl // 8 + r) % 4]):
                    S.append(s_roundtrip("rt-k%d-m%d-v%d-r%d" % (kl, ml, v, r), rnd, kl, ml, v))
    # random longer messages (and long block-aligned ones)
    nlong = 40 if thorough else 8
    for kl in KEYLENS:
        for j in range(nlong):
            hi = 4096 if thorough else 1024
            ml = rnd.randint(81, hi)
            if j % 4 == 0:
                ml -= ml % 16
            S.append(s_roundtrip("long-k%d-%d-m%d" % (kl, j, ml), rnd, kl, ml, j % 4))
        if thorough:
            S.append(s_roundtrip("long-k%d-m16384" % kl, rnd, kl, 16384, 0))
            S.append(s_roundtrip("long-k%d-m16383" % kl, rnd, kl, 16383, 3))
    # declared lengths
    Ls = list(range(0, 81)) if thorough else [0, 1, 15, 16, 17, 31, 32, 33, 47, 48, 64, 80]
    for kl in KEYLENS:
        for L in Ls:
            S.append(s_declared("decl-k%d-m%d" % (kl, L), rnd, kl, L))
            S.append(s_roundtrip("declrt-k%d-m%d" % (kl, L), rnd, kl, L, L % 4, D(kl, L, ctlen(L))))
        S.append(s_partial("part-k%d-msgonly" % kl, rnd, kl, D(kl, 7, UNL), [7, 6, 8, 0]))
        S.append(s_partial("part-k%d-msg0" % kl, rnd, kl, D(kl, 0, UNL), [0, 1, 16]))
        S.append(s_partial("part-k%d-ctonly" % kl, rnd, kl, D(kl, UNL, 48), [5, 16, 20, 31, 32, 0]))
        S.append(s_partial("part-k%d-inconsistent" % kl, rnd, kl, D(kl, 10, 64), [10, 40]))
        S.append(s_partial("part-k%d-ct32" % kl, rnd, kl, D(kl, UNL, 32), [0, 15, 16]))
        S.append(s_keylen("keylen-k%d" % kl, rnd, kl))
        S.append(s_malformed("malformed-k%d" % kl, rnd, kl))
        for j in range(12 if thorough else 4):
            S.append(s_empty_wrongkey("wrongkey-k%d-empty-%d" % (kl, j), rnd, kl, 12))
        for j in range(6 if thorough else 2):
            S.append(s_empty_wrongkey("wrongkey-k%d-m15-%d" % (kl, j), rnd, kl, 12, 15))
            S.append(s_empty_wrongkey("wrongkey-k%d-m16-%d" % (kl, j), rnd, kl, 12, 16))
    # many encryptions of one (k, m) on one object
    for kl in KEYLENS:
        S.append(s_many("many-k%d" % kl, rnd, kl, 5, 6000 if thorough else 700))
    # constructor: key lengths that are not permitted, cipher lengths no ciphertext can have
    for kb in (-1, 0, 1, 8, 15, 17, 20, 23, 25, 31, 33, 48, 64, 128, 256):
        S.append(s_ctor("ctor-key%d" % kb, D(kb)))
        S.append(s_ctor("ctor-key%d-decl" % kb, D(kb, 16, 48)))
    for cb in (1, 15, 17, 20, 31, 33, 47, 100):
        S.append(s_ctor("ctor-ct%d" % cb, D(16, UNL, cb)))
    for kl in KEYLENS:
        S.append(s_ctor("ctor-ok-k%d" % kl, D(kl, 5, 32)))
    return S


# ---------------------------------------------------------------------------
# main
# ---------------------------------------------------------------------------

def describe(e):
    if not e:
        return ""
    d = e.get("decl") or {}
    s = "op=%s declared(key=%s,msg=%s,ct=%s) out=%s" % (e.get("op"), d.get("key"), d.get("msg"), d.get("ct"), e.get("out"))
    if e.get("op") in ("enc", "dec"):
        s += " |k|=%d |m|=%d |ct|=%d" % (len(e.get("k", [])), len(e.get("m", [])), len(e.get("ct", [])))
        if len(e.get("k", [])) <= 32:
            s += " k=%s" % bytes(e["k"]).hex()
        if e.get("op") == "enc" and len(e["m"]) <= 48:
            s += " m=%s" % bytes(e["m"]).hex()
    return s


MC_INVS = ["PadIsValid", "RoundTrip", "PadLength", "LengthFormula", "EncDecToy", "IvPrepended", "UnpadInverse", "PadImage"]


def model(tr):
    consts = "MaxLen = 80\nFullLen = %d\nTailLen = %d\n" % ((9, 3) if tr == "thorough" else (7, 2))
    cfg = "CONSTANTS " + consts + "SPECIFICATION Spec\n" + "".join("INVARIANT %s\n" % i for i in MC_INVS) + "CHECK_DEADLOCK FALSE\n"
    r = run_tlc("MC_SKE", cfg, workers=2, heap="3g", timeout=900)
    if not r.distinct or r.distinct < 1000:
        raise MachineryError("MC_SKE explored only %s states" % r.distinct)
    return r, consts.replace("\n", " ")


def validate(traces, name):
    return pc.validate_layers("Trace_SKE", [{"tid": t["tid"], "ev": t["ev"]} for t in traces], name)


def main(argv_tier=None, replay_path=None):
    t0 = time.time()
    tr = tier(argv_tier)
    install()
    if replay_path:
        rp = pc.load_replay(replay_path)
        ev = run_script(rp["script"])
        traces = [{"tid": rp["script"]["tid"], "ev": ev}]
        rej, drift, _ = validate(traces, "c14-replay")
        for e in ev:
            print(describe(e))
        print("verdict:", rej or "ACCEPT", "drift:", drift or "none")
        return 1 if rej else 0

    r, consts = model(tr)
    rnd = random.Random(seed() * 1000003 + 14)
    scripts = gen_scripts(tr, rnd)
    evs = pmap(run_script, scripts)
    traces = [{"tid": s["tid"], "ev": ev} for s, ev in zip(scripts, evs)]
    ivs = [e["ct"][:16] for t in traces for e in t["ev"] if e["op"] == "enc" and e["out"] == "ok"]
    traces.append({"tid": "ivset-whole-run", "ev": [{"op": "ivset", "ivs": ivs}]})
    rej, drift, agg = validate(traces, "c14")
    by_tid = {s["tid"]: s for s in scripts}
    viol, seen, dl = pc.report(PROP, by_tid, traces, rej, drift, describe)

    calls = [e for t in traces for e in t["ev"] if e["op"] != "ivset"]
    kinds = {}
    for e in calls:
        key = "%s:%s" % (e["op"], e["out"])
        kinds[key] = kinds.get(key, 0) + 1
    distinct = {(e["op"], e["decl"]["key"], e["decl"]["msg"], e["decl"]["ct"], len(e["k"]), len(e["m"]), len(e["ct"]), e["out"])
                for e in calls}
    rt = {(len(e["k"]), len(e["res"])) for t in traces if t["tid"] not in rej for e in t["ev"]
          if e["op"] == "dec" and e["out"] == "ok"}
    if kinds.get("enc:ok", 0) < 500 or kinds.get("dec:ok", 0) < 500 or kinds.get("enc:ValueError", 0) < 50:
        if not rej:
            raise MachineryError("driver did not exercise the implementation as planned: %s" % kinds)
    sample = next(t for t in traces if t["tid"].startswith("rt-k16-m16-"))
    cov = {
        "states": r.distinct, "transitions": r.generated,
        "traces_validated_against_impl": len(traces),
        "trace_validation_states": agg["distinct"],
        "evaluations": len(calls),
        "distinct_nontrivial": len(distinct),
        "rule": "scripts on the real AESxCBC: round-trip groups (enc, enc again, dec both, 2 wrong-key decs) for every key length "
                "16/24/32 x every |m| 0..80 x PKCS7-relevant contents, random longer messages, fully/partially/inconsistently "
                "declared instances with every length-contract break, wrong-length keys, non-permitted constructor arguments, "
                "wrong-key decryptions of empty/15/16-byte messages, malformed ciphertexts; distinct_nontrivial = distinct "
                "(op, declared lengths, |k|, |m|, |ct|, outcome) among the judged calls",
        "calls_by_outcome": kinds,
        "roundtrips_distinct_keylen_msglen": len(rt),
        "ivs_checked_pairwise_distinct": len(ivs),
        "exhaustive": False,
        "model": "spec/prim/SKE.tla via MC_SKE (%s; invariants %s); trace spec Trace_SKE over lib/Bytes" % (consts.strip(), ", ".join(MC_INVS)),
        "drift": dl,
        "samples": [{"script": by_tid[sample["tid"]], "events": sample["ev"]}],
    }
    return finish(PROP, tr, t0, cov, [v for v in viol if v[1] != "-"] if viol else [], seen, assumptions=[
        "AES and the CBC mode inside `cryptography` are trusted: the block pipeline is an abstract function whose graph is the recorded "
        "Cipher(...).encryptor()/decryptor() calls; the recorded results are additionally compared with a direct AES-CBC call on the recorded inputs",
        "randomness is observed at os.urandom as seen from the aes module; freshness of IVs is checked over the calls of this run "
        "(pairwise distinct, drawn inside the call), not proved",
        "wrong-key decryption 'never returns m' is observed on the sampled keys (random and 1-bit-different), not proved",
    ])
