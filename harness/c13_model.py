"""Layer B model checking for C13 and the program conformance (drift) check."""
from common import MachineryError, run_tlc, parse_printed, tla_value

OPMAP = {
    "mkdir": ["mkdir", "dir"], "mkdir_ok": ["mkdir", "dir"],
    "open_cfg": ["open_w", "config.json"], "write_cfg": ["write", "config.json"], "close_cfg": ["close", "config.json"],
    "open_edb": ["open_w", "edb"], "write_edb": ["write", "edb"], "close_edb": ["close", "edb"],
    "open_key": ["open_w", "key"], "write_key": ["write", "key"], "close_key": ["close", "key"],
    "open_meta": ["open_w", "service_meta"], "write_meta": ["write", "service_meta"], "close_meta": ["close", "service_meta"],
    "open_tmp": ["open_w", "service_meta.tmp"], "write_tmp": ["write", "service_meta.tmp"], "close_tmp": ["close", "service_meta.tmp"],
    "rename_meta": ["replace", "service_meta"], "unlink_edb": ["unlink", "edb"],
}


def cfg(fixed, maxc, body, spec="Spec"):
    return ("CONSTANTS Fixed = %s\nMaxCrashes = %d\nSPECIFICATION %s\n%sCHECK_DEADLOCK FALSE\n"
            % ("TRUE" if fixed else "FALSE", maxc, spec, body))


def check(tr, programs):
    runs, drift = [], []
    tot = {"distinct": 0, "generated": 0}
    maxc = 2 if tr == "quick" else 3
    model_progs = {}
    for mod in ("MC_Persist", "MC_PersistClient"):
        r = run_tlc(mod, cfg(True, maxc, "INVARIANT Usable\nINVARIANT MetaNeverTorn\n" +
                             ("INVARIANT ReportedDurable\n" if mod == "MC_Persist" else "")), coverage=True, name="persist")
        for raw in parse_printed(r.out, "P"):
            v = tla_value(raw)
            model_progs[v[1]] = [OPMAP[o] for o in v[2]]
        if r.coverage.get("Crash", 0) == 0 or r.coverage.get("Step", 0) == 0:
            raise MachineryError("%s: Crash/Step never taken" % mod)
        runs.append({"module": mod, "fixed": True, "max_crashes": maxc, "distinct": r.distinct, "generated": r.generated,
                     "invariants": ["Usable", "MetaNeverTorn"], "action_counts": {k: v for k, v in r.coverage.items() if k[0].isupper()}})
        tot["distinct"] += r.distinct
        tot["generated"] += r.generated
        # any number of crashes: the counter is hidden by a VIEW and its bound (1000) is far above the diameter
        ru = run_tlc(mod, cfg(True, 1000, "VIEW NoCrashCount\nINVARIANT Usable\nINVARIANT MetaNeverTorn\n" +
                              ("INVARIANT ReportedDurable\n" if mod == "MC_Persist" else "")), name="persistunb")
        if (ru.depth or 0) >= 1000:
            raise MachineryError("%s: the crash bound was reached in the unbounded-crashes run" % mod)
        runs.append({"module": mod, "fixed": True, "max_crashes": "any (VIEW without the counter)", "distinct": ru.distinct, "depth": ru.depth,
                     "invariants": ["Usable", "MetaNeverTorn"] + (["ReportedDurable"] if mod == "MC_Persist" else [])})
        r = run_tlc(mod, cfg(True, maxc, "PROPERTY Reaches\n", spec="FairSpec"), name="persistlive")
        runs.append({"module": mod, "fixed": True, "property": "Reaches (FairSpec)", "distinct": r.distinct})
        r = run_tlc(mod, cfg(False, 1, "INVARIANT Usable\n"), allow_violation=True, name="persistold")
        if r.violated != "Usable":
            raise MachineryError("%s with Fixed = FALSE no longer violates Usable (model lost sight of defect D10)" % mod)
        runs.append({"module": mod, "fixed": False, "violates": "Usable", "as_expected": True})
    for h, rec in sorted(programs.items()):
        mp = model_progs.get(h)
        if mp != rec:
            drift.append("handler %s performs %s but Layer B has %s" % (h, rec, mp))
    tot["runs"] = runs
    tot["drift"] = drift
    tot["model_programs"] = model_progs
    return tot
