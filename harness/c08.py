"""C08 - a configuration is either refused loudly or yields a correct scheme.

Layer A + B: spec/sse/ConfigGrid.tla.  MC_ConfigGrid (one TLC run per scheme) enumerates the grid of the property
text (single-field variations incl. deletions, pairs of length fields, per-scheme products), checks the model-level
invariants NoWrongPredicted / RequiredRefused and prints every grid point with its candidate databases.  Every point
is run through the real SSEConfig / SSEScheme / KeyGen / EDBSetup / TokenGen / Search on databases that are valid
for that configuration (all stored keywords and two absent ones are searched); one JSON record per (configuration,
database) is judged by TLC against Trace_Config:
  Layer A (violation): WrongAnswer on a valid database, or a configuration lacking a required field that builds.
  Layer B (DRIFT only): the stage at which the code stopped is not in ConfigGrid!StageSet.
Points whose searches raised after a completed setup are re-run on a database with many keywords (a wrong-key
decryption is detected by the PKCS7 unpadding only with probability 255/256 per ciphertext).
Python decides nothing: it decodes grid points, builds databases, records what happened.
"""
import hashlib
import json
import math
import os
import random
import signal
import time

import common
from common import (REPO, MachineryError, classify, finish, parse_printed, pmap, run_tlc, seed, subdir, tier, tla_value,
                    validate_traces, write_replay)
import fe_server as fs
import sse_common as sc
import sse_engine as se

PROP = "C08"
X, FLT, DEL, DELS = -77, -78, -88, "<deleted>"
RATIO = "param_actual_storage_level_ratio"
CASE_SECONDS = 25               # wall-clock guard per (configuration, database) run
AMP_KEYWORDS = 1024             # amplification database: that many keywords with one posting each
LENGTH_FIELDS = ("param_lambda", "param_k", "param_k_prime", "param_l", "param_l_prime", "prf_f_output_length")
NO_AMP = ("CGKO06.SSE1", "CGKO06.SSE2")     # capacities (array size, number of files) forbid the amplification database


# ----------------------------------------------------------------------------- environment tables for the model
def env_tables():
    """What the model cannot compute: which spellings hashlib accepts (and the digest sizes), and the DP17 level
    count table for each ratio of the grid, computed with the same float expression as the code."""
    rows = []
    for n in sorted(hashlib.algorithms_available):
        for sp in (n, n.upper(), n.capitalize()):
            if any(r[0] == sp for r in rows):
                continue
            try:
                dsz = hashlib.new(sp).digest_size
            except Exception:
                dsz = -1
            rows.append([sp, sp.lower() in hashlib.algorithms_available, dsz])
    ratios = []
    for num, den in [(0, 1), (1, 5), (1, 2), (4, 5), (1, 1)]:
        r = num / den
        ratios.append([num, den, [max(1, math.ceil(l * r)) for l in range(31)]])
    return {"hash": rows, "ratio": ratios}


def write_env():
    p = os.path.join(subdir("c08"), "env.json")
    with open(p, "w") as fh:
        json.dump(env_tables(), fh)
    os.environ["C08_ENV"] = p           # read by ConfigGrid.tla (MC run and trace validation)
    return p


# ----------------------------------------------------------------------------- grid points from TLC
def model_grid(scheme, full):
    cfgtxt = ('CONSTANTS Scheme = "%s"\nFull = %s\nSPECIFICATION Spec\nINVARIANT Emit\nINVARIANT NoWrongPredicted\n'
              'INVARIANT RequiredRefused\nCHECK_DEADLOCK FALSE\n' % (scheme, "TRUE" if full else "FALSE"))
    r = None
    for attempt in (1, 2):              # a JVM killed by the OOM killer on the shared box leaves no error text: retry once
        try:
            r = run_tlc("MC_ConfigGrid", cfgtxt, workers=4, heap="2g", name="grid", timeout=900)
            break
        except MachineryError:
            if attempt == 2:
                raise
    pts = []
    for raw in parse_printed(r.out, "H"):
        v = tla_value(raw)
        pts.append({"scheme": scheme, "cfg": v[1],
                    "cands": [{"p": c[0], "valid": c[1], "pred": sorted(c[2])} for c in v[2]],
                    "ctl": [{"p": c[0], "valid": c[1], "pred": sorted(c[2])} for c in v[3]],
                    "idlen": v[4], "kwmax": v[5]})
    if len(pts) != (r.distinct or 0):
        raise MachineryError("MC_ConfigGrid %s: %d points parsed, TLC reports %s distinct" % (scheme, len(pts), r.distinct))
    pts.sort(key=lambda q: json.dumps(q["cfg"], sort_keys=True))
    return pts, r


def decode(scheme, acfg):
    """abstract configuration (the grid's encoding) -> the dictionary a user would write"""
    cfg = {"scheme": scheme}
    for k, v in acfg.items():
        if k == RATIO:
            if v[0] != DEL:
                cfg[k] = v[0] / v[1]
        elif isinstance(v, str):
            if v != DELS:
                cfg[k] = v
        elif v == X:
            cfg[k] = "x"
        elif v == FLT:
            cfg[k] = 1.5
        elif v != DEL:
            cfg[k] = v
    return cfg


# ----------------------------------------------------------------------------- one (configuration, database) run
class CaseTimeout(BaseException):
    pass


def _on_alarm(*_a):
    raise CaseTimeout()


def clear_registries():
    """the name registries cache per lower-cased name (toolkit.hash caches the first SPELLING): every case sees them empty"""
    import toolkit.hash
    import toolkit.prf
    import toolkit.prp
    import toolkit.symmetric_encryption
    for mod in (toolkit.hash, toolkit.prf, toolkit.prp, toolkit.symmetric_encryption):
        for name, val in vars(mod).items():
            if name.endswith("_cache") and isinstance(val, dict):
                val.clear()


def err_of(ex):
    return type(ex).__name__ + ": " + str(ex)[:90]


def run_record(scheme, acfg, p, idlen, kwmax, seed_, kind="grid"):
    rnd = random.Random(seed_)
    cfg = decode(scheme, acfg)
    kwlen = rnd.randint(1, kwmax) if scheme.startswith("CGKO06") else None
    db = sc.make_db(p, idlen, rnd, kw_len=kwlen)
    rec = {"scheme": scheme, "cfg": acfg, "p": list(p), "seed": seed_, "kind": kind, "idlen": idlen, "kwmax_policy": kwmax,
           "d": {"idlen": idlen, "kwmax": max(len(k) for k in db), "files": sc.distinct_files(db)},
           "stage": "config", "etype": "", "err": "", "searches": [], "pycfg": {k: v for k, v in cfg.items()}}
    clear_registries()
    ml = sc.load(scheme)
    signal.signal(signal.SIGALRM, _on_alarm)
    signal.setitimer(signal.ITIMER_REAL, CASE_SECONDS, 0.5)        # re-fires: the library has bare `except:` clauses
    try:
        try:
            ml.SSEConfig(cfg)
            rec["stage"] = "scheme"
            sch = ml.SSEScheme(cfg)
            rec["stage"] = "keygen"
            key = sch.KeyGen()
            rec["stage"] = "setup"
            edb = sch.EDBSetup(key, db)
            rec["stage"] = "ok"
        except Exception as ex:
            rec["etype"], rec["err"] = type(ex).__name__, err_of(ex)
            return rec
        kws = list(db)
        lim = cfg.get("param_l") if (scheme.startswith("CGKO06") and isinstance(cfg.get("param_l"), int) and cfg["param_l"] >= 1) else 64
        absent = se.absent_keywords(db, rnd, scheme, {"param_l": lim})
        todo = [(i + 1, kws[i]) for i in range(len(kws))]
        todo += [(0, k) for _cls, k in ([a for a in absent if a[0] == "random"][:1] + [a for a in absent if a[0] != "random"][:1])]
        for kwi, kw in todo:
            s = {"kw": kwi, "out": "raised", "pos": [], "st": "token", "etype": ""}
            try:
                tok = sch.TokenGen(key, kw)
                s["st"] = "search"
                res = sch.Search(edb, tok).get_result_list()
                exp = db[kw] if kwi else []
                s["pos"] = sc.result_positions(sc.ordered(res, exp), exp)
                s["out"], s["st"] = "result", ""
            except Exception as ex:
                s["etype"] = type(ex).__name__
                if rec["stage"] == "ok":
                    rec["stage"], rec["etype"], rec["err"] = s["st"], s["etype"], err_of(ex)
            rec["searches"].append(s)
        return rec
    except CaseTimeout:
        rec["stage"], rec["err"] = "timeout", "no return within %d s (was at stage %s)" % (CASE_SECONDS, rec["stage"])
        return rec
    finally:
        signal.setitimer(signal.ITIMER_REAL, 0, 0)


def run_point(arg):
    """all runs of one grid point: the first K candidate databases that are valid for it (the first candidate if none is),
    plus the out-of-domain controls.  A configuration that SSEConfig refuses is run once: the database plays no role."""
    idx, pt, k, sd = arg
    cands = [c for c in pt["cands"] if c["valid"]][:k] or pt["cands"][:1]
    out = []
    for j, c in enumerate(cands):
        r = run_record(pt["scheme"], pt["cfg"], c["p"], pt["idlen"], pt["kwmax"], sd * 1000003 + idx * 16 + j)
        r["pred"] = c["pred"]
        out.append(r)
        if r["stage"] == "config":
            break
    if out and out[0]["stage"] != "config":
        for j, c in enumerate(pt["ctl"]):
            r = run_record(pt["scheme"], pt["cfg"], c["p"], pt["idlen"], pt["kwmax"], sd * 1000003 + idx * 16 + 8 + j, kind="control")
            r["pred"] = c["pred"]
            out.append(r)
    return out


def run_amp(arg):
    idx, rec, sd = arg
    r = run_record(rec["scheme"], rec["cfg"], [1] * AMP_KEYWORDS, rec["idlen"], rec["kwmax_policy"], sd * 1000003 + 7 * idx + 3, kind="amplified")
    r["pred"] = []
    return r


def strip(rec):
    """the part of a record that goes to TLC"""
    return {"scheme": rec["scheme"], "cfg": rec["cfg"], "p": rec["p"], "d": rec["d"], "stage": rec["stage"],
            "searches": [{"kw": s["kw"], "out": s["out"], "pos": s["pos"]} for s in rec["searches"]]}


def sample(rec):
    s = {k: rec[k] for k in ("scheme", "pycfg", "p", "d", "stage", "etype", "kind", "pred")}
    if len(s["p"]) > 12:
        s["p"] = "[1]*%d" % len(s["p"])
    s["searches"] = [{"kw": x["kw"], "out": x["out"], "pos": x["pos"]} for x in rec["searches"][:6]]
    return s


def parse_report(clause):
    """'out=Raised;valid=TRUE;exact=TRUE;DRIFT observed setup predicted {"config"}' -> (out, valid, exact, drift text or '')"""
    parts = clause.split(";", 3)
    out = parts[0][4:] if parts and parts[0].startswith("out=") else "?"
    valid = len(parts) > 1 and parts[1] == "valid=TRUE"
    exact = len(parts) > 2 and parts[2] == "exact=TRUE"
    return out, valid, exact, (parts[3] if len(parts) > 3 else "")


def validate(recs, name="grid"):
    good = [r for r in recs if r["stage"] != "timeout"]
    traces = [{"tid": "k%d" % i, "ev": [strip(r)]} for i, r in enumerate(good)]
    verdicts, agg = validate_traces("Trace_Config", traces, shards=min(4, max(1, len(traces) // 1500)), name=name, timeout=2400)
    return good, [verdicts["k%d" % i] for i in range(len(good))], agg


def self_test():
    """the oracle itself: three fabricated records (not produced by the code under test) must be judged
    REJECT WrongAnswer:present, REJECT MissingFieldBuilt and ACCEPT."""
    base = {"param_lambda": 32, "prf_f_output_length": 32, "prf_f": "HmacPRF", "ske": "AES-CBC"}
    d = {"idlen": 8, "kwmax": 9, "files": 3}
    okres = [{"kw": 1, "out": "result", "pos": [1, 2]}, {"kw": 2, "out": "result", "pos": [1]}, {"kw": 0, "out": "result", "pos": []}]
    bad = [{"kw": 1, "out": "result", "pos": [1]}, {"kw": 2, "out": "raised", "pos": []}]
    fab = [{"scheme": "CJJ14.PiBas", "cfg": base, "p": [2, 1], "d": d, "stage": "search", "searches": bad},
           {"scheme": "CJJ14.PiBas", "cfg": dict(base, ske=DELS), "p": [2, 1], "d": d, "stage": "ok", "searches": okres},
           {"scheme": "CJJ14.PiBas", "cfg": base, "p": [2, 1], "d": d, "stage": "ok", "searches": okres}]
    vs, _ = validate_traces("Trace_Config", [{"tid": "f%d" % i, "ev": [r]} for i, r in enumerate(fab)], shards=1, name="selftest")
    got = [(vs["f%d" % i]["ok"], vs["f%d" % i]["clause"].split(";")[0]) for i in range(3)]
    if got != [(False, "WrongAnswer:present"), (False, "MissingFieldBuilt"), (True, "out=AllCorrect")]:
        raise MachineryError("Trace_Config self-test failed: %s" % got)


def replay(path):
    with open(path) as fh:
        rp = json.load(fh)
    rec = run_record(rp["scheme"], rp["cfg"], rp["p"], rp["idlen"], rp["kwmax_policy"], rp["seed"], kind=rp.get("kind", "grid"))
    rec["pred"] = rp.get("pred", [])
    _good, vs, _agg = validate([rec], name="replay")
    print(json.dumps(sample(rec), indent=1, default=str)[:3000])
    print(vs)
    return 0 if (vs and vs[0]["ok"]) else 1


def main(argv_tier=None, replay_path=None):
    t0 = time.time()
    tr = tier(argv_tier)
    fs.setup_env(REPO)
    import schemes  # noqa: F401  (imported before forking)
    write_env()
    if replay_path:
        return replay(replay_path)
    for f in os.listdir(os.path.join(common.VERIF, "replays")) if os.path.isdir(os.path.join(common.VERIF, "replays")) else []:
        if f.startswith(PROP + "-") and f.endswith(".json"):        # replay files of an earlier run
            os.unlink(os.path.join(common.VERIF, "replays", f))
    self_test()
    sd = seed()
    full = tr == "thorough"
    k = 4 if full else 2
    points, model = [], {"distinct": 0, "generated": 0, "runs": []}
    for s in sc.SCHEMES:
        pts, r = model_grid(s, full)
        model["distinct"] += r.distinct or 0
        model["generated"] += r.generated or 0
        npred = {}
        for q in pts:
            for c in q["cands"][:1]:
                key = "/".join(c["pred"]) if len(c["pred"]) < 6 else "any"
                npred[key] = npred.get(key, 0) + 1
        ndel = sum(1 for q in pts if any(v in (DEL, DELS) or (isinstance(v, list) and v[0] == DEL) for v in q["cfg"].values()))
        model["runs"].append({"scheme": s, "grid_points": len(pts), "deletion_points": ndel, "predicted_first_candidate": npred,
                              "tlc_distinct": r.distinct, "tlc_wall_s": round(r.wall, 1)})
        if not pts or ndel == 0 or "ok" not in npred or "config" not in npred:
            raise MachineryError("grid of %s is vacuous: %s" % (s, model["runs"][-1]))
        points += pts
    recs = []
    for chunk in pmap(run_point, [(i, q, k, sd) for i, q in enumerate(points)]):
        recs += chunk
    # amplification: points that completed setup and then raised in TokenGen / Search
    seen, amp_src = set(), []
    per_scheme = {}
    cap = 400 if full else 60
    for r in recs:
        key = json.dumps([r["scheme"], r["cfg"]], sort_keys=True)
        if r["kind"] == "grid" and r["stage"] in ("token", "search") and r["scheme"] not in NO_AMP and key not in seen:
            seen.add(key)
            if per_scheme.get(r["scheme"], 0) < cap:
                per_scheme[r["scheme"]] = per_scheme.get(r["scheme"], 0) + 1
                amp_src.append(r)
    amp_skipped = len(seen) - len(amp_src)
    recs += pmap(run_amp, [(i, r, sd) for i, r in enumerate(amp_src)], chunksize=1)
    timeouts = [r for r in recs if r["stage"] == "timeout"]
    good, vs, agg = validate(recs)
    rej, drift = [], []
    stats = {}
    for r, v in zip(good, vs):
        st = stats.setdefault(r["scheme"], {"records": 0, "Raised": 0, "AllCorrect": 0, "WrongAnswer_out_of_domain": 0, "stages": {},
                                            "searches": 0, "valid_db": 0, "stage_predicted": 0, "deletions_run": 0, "amplified": 0})
        st["records"] += 1
        st["searches"] += len(r["searches"])
        st["stages"][r["stage"]] = st["stages"].get(r["stage"], 0) + 1
        st["amplified"] += r["kind"] == "amplified"
        st["deletions_run"] += any(x in (DEL, DELS) or (isinstance(x, list) and x[0] == DEL) for x in r["cfg"].values())
        if not v["ok"] and v["clause"].startswith("Harness"):
            raise MachineryError("C08: the harness produced a record the trace specification does not accept as well-formed: %s %s" % (r["scheme"], r["cfg"]))
        if not v["ok"]:
            # canonical finding key: scheme, clause (present/absent merged), and whether a length field is 0
            zero = any(x == 0 for f, x in r["cfg"].items() if f in LENGTH_FIELDS)
            rej.append({"key": "%s:%s%s" % (r["scheme"], v["clause"].split(":")[0], ":zero-length" if zero else ""), "rec": r, "verdict": v})
            continue
        out, valid, exact, dr = parse_report(v["clause"])
        st["stage_predicted"] += exact
        if out == "WrongAnswer":
            st["WrongAnswer_out_of_domain"] += 1
        elif out in st:
            st[out] += 1
        st["valid_db"] += valid
        if dr:
            drift.append({"scheme": r["scheme"], "cfg": r["pycfg"], "p": r["p"] if len(r["p"]) < 12 else "[1]*%d" % len(r["p"]),
                          "kind": r["kind"], "what": dr, "err": r["err"]})
    for s in sc.SCHEMES:
        if not stats.get(s, {}).get("deletions_run"):
            raise MachineryError("no deletion point was run for %s" % s)
    controls = sum(1 for r, v in zip(good, vs) if v["ok"] and r["kind"] == "control" and parse_report(v["clause"])[0] == "WrongAnswer")
    viol, known = classify(PROP, rej)
    order = {}
    for x in viol:                                  # one violation of every kind first (only the first 20 are printed / get a replay file)
        kk = x["key"] + "|" + ",".join(sorted(f for f, val in x["rec"]["cfg"].items() if val == 0)) + "|" + x["rec"]["kind"]
        x["_rank"] = order[kk] = order.get(kk, -1) + 1
    viol.sort(key=lambda x: x["_rank"])
    vio_out = []
    for x in viol:
        r, path = x["rec"], ""
        if len(vio_out) < 20:
            path = write_replay(PROP, "%s-%d" % (r["scheme"].replace(".", "_"), len(vio_out)),
                                {"scheme": r["scheme"], "cfg": r["cfg"], "pycfg": r["pycfg"], "p": r["p"], "idlen": r["idlen"],
                                 "kwmax_policy": r["kwmax_policy"], "seed": r["seed"], "kind": r["kind"], "pred": r.get("pred", []),
                                 "stage": r["stage"], "err": r["err"], "verdict": x["verdict"],
                                 "searches_wrong": [s for s in r["searches"] if s["out"] == "result" and s["pos"] != ([1] if s["kw"] else [])][:5]
                                 if r["kind"] == "amplified" else r["searches"][:12]})
        pdesc = r["p"] if len(r["p"]) < 12 else "[1]*%d" % len(r["p"])
        vio_out.append(("%s clause=%s cfg=%s db-profile=%s stage=%s" % (r["scheme"], x["verdict"]["clause"],
                        {f: v for f, v in r["pycfg"].items() if f != "scheme"}, pdesc, r["stage"]), path))
    for d in drift[:15]:
        print("DRIFT property=%s %s cfg=%s profile=%s: %s (%s)" % (PROP, d["scheme"], {k: v for k, v in d["cfg"].items() if k != "scheme"}, d["p"], d["what"], d["err"]))
    kinds = {}
    for d in drift:
        kk = "%s: %s" % (d["scheme"], d["what"][6:])
        kinds[kk] = kinds.get(kk, 0) + 1
    if len(drift) > 15:
        print("DRIFT property=%s ... %d drift records in total: %s" % (PROP, len(drift), json.dumps(kinds, sort_keys=True)))
    for r in timeouts[:10]:
        print("SKIPPED property=%s %s cfg=%s profile=%s: %s" % (PROP, r["scheme"], r["pycfg"], r["p"][:8], r["err"]))
    nsearch = sum(len(r["searches"]) for r in good)
    built = [r for r in good if r["stage"] in ("ok", "token", "search")]
    cov = {
        "states": model["distinct"], "transitions": model["generated"], "model_runs": model["runs"],
        "grid_points": len(points), "traces_validated_against_impl": len(good), "trace_validation_states": agg["distinct"],
        "evaluations": len(good), "searches_executed": nsearch,
        "distinct_nontrivial": len({json.dumps([r["scheme"], r["cfg"], r["p"]], sort_keys=True) for r in built}),
        "rule": "cases = (grid point of MC_ConfigGrid, candidate database valid for it): the first %d valid candidates per point (one when "
                "SSEConfig refuses), the out-of-domain SSE-2 controls, and a %d-keyword database for every point that raised after setup; "
                "evaluations = pipeline runs judged by TLC; non-trivial = distinct (configuration, profile) whose setup completed, i.e. that went on to searches" % (k, AMP_KEYWORDS),
        "per_scheme": stats, "out_of_domain_controls_judged_WrongAnswer": controls, "amplified_points": len(amp_src), "amplification_skipped_over_cap": amp_skipped,
        "skipped_timeouts": [{"scheme": r["scheme"], "cfg": r["pycfg"], "p": r["p"][:8], "why": r["err"]} for r in timeouts[:20]],
        "sized_down": "SSE-1 base param_s = 64, param_dictionary_size = 16 (defaults 2^16: the 65536-slot array is filled per setup); "
                      "SSE-2 base param_n = 8 (default -1 = scan first); Pi2Lev's large case at B = 64 (> 4096 postings) is left to C01",
        "drift": drift[:30], "drift_count": len(drift), "drift_by_kind": kinds,
        "samples": [sample(good[0]), sample(good[len(good) // 3]), sample(good[2 * len(good) // 3])],
        "model": "Layer A + B spec/sse/ConfigGrid.tla; generator spec/sse/MC_ConfigGrid.tla (NoWrongPredicted, RequiredRefused); "
                 "trace spec spec/sse/Trace_Config.tla",
    }
    return finish(PROP, tr, t0, cov, vio_out, known,
                  assumptions=["AES / HMAC / hashlib trusted; random keys, IVs and PRP images: a label collision or a wrong-key decryption that "
                               "happens with cryptographically negligible probability is not modelled",
                               "a database is valid for a configuration when identifiers have exactly param_identifier_size bytes, keywords at most "
                               "param_l bytes (CGKO06), N < param_s and #keywords <= param_dictionary_size (SSE-1), #files <= param_n (SSE-2)",
                               "required fields = every key the scheme's config.py / construction.py reads (SSE-2 never reads param_dictionary_size, "
                               "param_identifier_size, param_max); the key 'scheme' is consumed by the loader, not by SSEConfig",
                               "negative block counts are outside the grid; the non-integer value is the string 'x'",
                               "name registries are emptied before every case (toolkit.hash caches the first spelling it saw)"])
