"""C20 — persistent byte dictionaries behave like a dict and survive close / reopen.

1. TLC explores the complete state graph of PDict (Layer A, spec/store/PDict.tla) through MC_PDict.GraphSpec
   and checks the model's own clauses; every named action must fire (vacuity guard).
2. MC_PDict.HistSpec is the generator: TLC emits every operation history up to depth D (up to renaming of
   keys / values), once for the full life cycle (PickledDict) and once for a single open session (DBMDict:
   the harness never opens one DBM path a second time - the class takes a blocking per-path lock and would
   hang). `tlc -simulate` supplies deeper sampled histories, a seeded driver supplies histories up to length 50.
3. Every history is executed on the real PickledDict / DBMDict in a scratch directory of its own, under a hard
   time limit (a call that does not come back is the observation "NoReturn"); one record per call: operation,
   arguments, outcome (ok / exception class), result, and the content seen through the public API afterwards.
4. TLC validates every trace against Trace_PDict; a rejection names step and clause.

Python here only drives and records; the expected behaviour is in the .tla modules.
"""
import json
import os
import pickle
import random
import re
import shutil
import signal
import sys
import time
import traceback

from common import (NCPU, REPO, MachineryError, classify, fast_subdir, finish, run_tlc, seed, subdir, tier,
                    validate_traces, write_replay)

PROP = "C20"

# the model's key / value names are instantiated from these pools, a different assignment per case
KEYPOOL = [b"a", b"", b"k\x00\xff", b"key-" + bytes(range(48, 78)), b"\x80", b"b", b"\xff" * 3, b"None"]
VALPOOL = [b"", b"v", b"\x00\x00\x00", bytes(range(256)), b"None", b"x" * 1000]
import array as _array
# values that are not byte strings (bytes-like objects that are not bytes / bytearray included: a view or an array is not a string)
NBPOOL = ["text", 7, None, [b"x"], 1.5, ("t",), {"a": 1}, True, memoryview(b"mv"), _array.array("B", [1, 2]), memoryview(bytearray(b"w"))]
TRACE_KEYS, TRACE_VALS = 5, 3          # universe of the trace spec (random histories use all of it)
CONSTS = "CONSTANTS Keys = {1,2,3,4,5}\nVals = {1,2,3}\n"
MC_CONSTS = "CONSTANTS Keys = {1,2,3}\nVals = {1,2}\n"
MC_CONSTS_SMALL = "CONSTANTS Keys = {1,2}\nVals = {1,2}\n"
D_QUICK, D_THOROUGH = 4, 5
QUICK_SAMPLE = 12000
SIM_QUICK = ((6, 60), (7, 60))            # (depth, random walks)
SIM_THOROUGH = ((6, 2000), (7, 2000))
CASE_TIMEOUT = 20.0                    # seconds per case (alarm inside the worker)
KINDS = ("pickled", "dbm")
HANDLE_OPS = ("set", "get", "del", "in", "len", "iter", "getd", "clear", "sync", "close")
CTOR_OPS = ("create", "fromdict", "open")


def tv_shards():
    """Concurrent TLC processes for trace validation (one JVM does ~5000 traces/s): as many as there are idle cores,
    between 4 and 12 (on a busy machine more JVMs are slower, not faster)."""
    try:
        idle = NCPU - os.getloadavg()[0]
    except OSError:
        idle = 6
    return max(4, min(12, int(idle)))


class CaseTimeout(BaseException):
    pass


def _on_alarm(_sig, _frm):
    raise CaseTimeout()


_SENT = object()      # the default object handed to get(key, default)
_CLASSES = {}


def classes():
    if not _CLASSES:
        if REPO not in sys.path:
            sys.path.insert(0, REPO)
        import data_persistence.persistent_dict as pdm
        src = os.path.realpath(pdm.__file__)
        if not src.startswith(os.path.realpath(REPO) + os.sep):
            raise MachineryError("data_persistence imported from %s, not from %s" % (src, REPO))
        _CLASSES["pickled"] = pdm.PickledDict
        _CLASSES["dbm"] = pdm.DBMDict
    return _CLASSES


# ---------------------------------------------------------------------------
# executing one history on the real class
# ---------------------------------------------------------------------------

class Runner:
    def __init__(self, kind, case_dir, keys, vals, rnd):
        self.kind = kind
        self.cls = classes()[kind]
        self.path = os.path.join(case_dir, "store")
        self.keys, self.vals, self.rnd = keys, vals, rnd
        self.kname = {k: i + 1 for i, k in enumerate(keys)}
        self.vname = {v: i + 1 for i, v in enumerate(vals)}
        self.pd = None          # the one dictionary object
        self.objects = 0        # how many objects the constructors have handed out
        self.src = None         # the caller's dict given to from_dict

    # projections: concrete -> names of the model (99 = not a member of the universe)
    def kn(self, k):
        return self.kname.get(k, 99) if type(k) is bytes else 99

    def vn(self, v):
        return self.vname.get(v, 99) if type(v) is bytes else 99

    def observe(self):
        """The content as the public API shows it."""
        if self.pd is None:
            return {"h": "none", "items": []}
        try:
            ks = list(iter(self.pd))
            items = sorted([self.kn(k), self.vn(self.pd[k])] for k in ks)
            return {"h": "open", "items": items}
        except ValueError:
            return {"h": "closed", "items": []}
        except CaseTimeout:
            raise
        except Exception as ex:
            return {"h": "broken:" + type(ex).__name__, "items": []}

    def impl_view(self):
        """Layer B only (DRIFT): the shelf object inside a DBMDict, found by shape (an attribute value that has both a
        `cache` mapping and a `dict` mapping), and the key names in its cache and in its dbm object.  "unknown" when the
        object is not built that way."""
        unknown = {"h": "unknown", "cache": [], "dbm": []}
        if self.kind != "dbm":
            return unknown
        if self.pd is None:
            return {"h": "known", "cache": [], "dbm": []}
        try:
            sh = None
            for v in list(vars(self.pd).values()):
                if hasattr(v, "cache") and hasattr(v, "dict") and isinstance(getattr(v, "cache"), dict):
                    sh = v
                    break
            if sh is None:
                closed = [v for v in vars(self.pd).values() if type(v).__name__ == "_ClosedDict"]
                return {"h": "known", "cache": [], "dbm": []} if closed else unknown
            ck = sorted(self.kn(k) for k in sh.cache)
            dk = sorted(self.kn(k) for k in list(sh.dict.keys()))
            if 99 in ck or 99 in dk:
                return unknown
            return {"h": "known", "cache": ck, "dbm": dk}
        except CaseTimeout:
            raise
        except Exception:
            return unknown

    def ctor(self, f):
        if self.kind == "dbm" and self.objects:
            # harness rule (DESIGN 5/C20): a DBM path is never opened twice; the generator never asks for it
            raise MachineryError("history asks for a second DBMDict on one path")
        obj = f()
        self.pd = obj
        self.objects += 1

    def do(self, sym):
        """Execute one operation symbol; returns the record without `after`."""
        op, a, b = sym
        rec = {"op": op}
        if op in ("set", "get", "del", "in", "getd", "mutsrc"):
            rec["k"] = a
            key = self.keys[a - 1]
        if op == "occupy":
            rec["k"] = a
        if op in ("set", "mutsrc"):
            rec["v"] = b
        if op == "getd":
            rec["df"] = b
        if op == "fromdict":
            rec["m"] = [list(p) for p in a]
        res = None
        if op in HANDLE_OPS and self.pd is None:
            rec["out"] = "NoObject"
        else:
            try:
                if op == "set":
                    val = self.rnd.choice(NBPOOL) if b == -1 else self.vals[b - 1]
                    self.pd[key] = val
                elif op == "get":
                    res = self.vn(self.pd[key])
                elif op == "del":
                    del self.pd[key]
                elif op == "in":
                    r = key in self.pd
                    res = r if isinstance(r, bool) else 99
                elif op == "len":
                    r = len(self.pd)
                    res = r if isinstance(r, int) and 0 <= r < 2 ** 31 else -1
                elif op == "iter":
                    res = [self.kn(k) for k in self.pd]
                elif op == "getd":
                    r = self.pd.get(key) if b == 0 else self.pd.get(key, _SENT)
                    res = 0 if r is None else (-2 if r is _SENT else self.vn(r))
                elif op == "clear":
                    self.pd.clear()
                elif op == "sync":
                    self.pd.sync()
                elif op == "close":
                    self.pd.close()
                elif op == "create":
                    self.ctor(lambda: self.cls.create(self.path))
                elif op == "open":
                    self.ctor(lambda: self.cls.open(self.path))
                elif op == "fromdict":
                    newsrc = {self.keys[k - 1]: self.vals[v - 1] for k, v in a}
                    self.ctor(lambda: self.cls.from_dict(newsrc, self.path))
                    self.src = newsrc          # the caller keeps (and keeps changing) this very object
                elif op == "occupy":
                    # the environment, not the library: a foreign file under the path (a = 0: empty, e.g. reserved with
                    # mkstemp; a = 1: some bytes)
                    if self.objects or os.path.lexists(self.path):
                        raise MachineryError("history occupies a path that is already in use")
                    with open(self.path, "wb") as f:
                        f.write(b"" if a == 0 else b"not a dictionary\n")
                elif op == "mutsrc":
                    if self.src is None:
                        rec["out"] = "NoObject"
                    elif b == 0:
                        del self.src[key]
                    else:
                        self.src[key] = self.vals[b - 1]
                else:
                    raise MachineryError("unknown operation " + repr(op))
                rec.setdefault("out", "ok")
            except (CaseTimeout, MachineryError):
                raise
            except Exception as ex:
                rec["out"] = exc_name(ex)
                res = None
        if op in ("get", "getd", "len"):
            rec["res"] = res if res is not None else 0
        elif op == "in":
            rec["res"] = res if res is not None else False
        elif op == "iter":
            rec["res"] = res if res is not None else []
        return rec


KNOWN_EXC = ("KeyError", "ValueError", "TypeError", "FileExistsError", "FileNotFoundError")


def exc_name(ex):
    """the nearest of the built-in classes the specification knows among the exception's classes (a subclass of ValueError IS a
    ValueError); "Error" for anything else"""
    for c in type(ex).__mro__:
        if c.__name__ in KNOWN_EXC:
            return c.__name__
    return "Error"


def concretise(case):
    rnd = random.Random(seed() * 1000003 + case["cid"] * 7919 + (0 if case["kind"] == "pickled" else 1))
    keys = rnd.sample(KEYPOOL, TRACE_KEYS)
    vals = rnd.sample(VALPOOL, TRACE_VALS)
    return keys, vals, rnd


def norm_hist(hist):
    """fromdict carries either the size n of the model's SrcMap(n) or an explicit item list."""
    out = []
    for op, a, b in hist:
        if op == "fromdict" and isinstance(a, int):
            a = [[i, i] for i in range(1, a + 1)]
        out.append((op, a, b))
    return out


def run_case(case):
    """-> list of trace records.  Runs inside a worker with SIGALRM armed."""
    keys, vals, rnd = case.get("keys"), case.get("vals"), None
    k2, v2, rnd = concretise(case)
    keys = [bytes.fromhex(x) for x in keys] if keys else k2
    vals = [bytes.fromhex(x) for x in vals] if vals else v2
    # TLC-generated histories run on tmpfs (one directory per case; ~30x cheaper metadata operations), the random
    # ones on the scratch disk
    mk = subdir if case.get("origin") == "random" or case.get("disk") else fast_subdir
    d = os.path.join(mk("c20-" + case["kind"]), "c%d" % case["cid"])
    os.makedirs(d)
    rn = Runner(case["kind"], d, keys, vals, rnd)
    hist = norm_hist(decode_hist(case["hist"]))
    sparse = case.get("obs") == "sparse"
    ev = []
    signal.setitimer(signal.ITIMER_REAL, CASE_TIMEOUT)
    try:
        rec = None
        try:
            for i, sym in enumerate(hist):
                rec = None
                rec = rn.do(sym)
                if sparse and i + 1 < len(hist) and rnd.random() < 0.7:
                    rec["after"] = {"h": "unknown", "items": []}
                else:
                    rec["impl"] = rn.impl_view()          # before the observation below reads (and so caches) every key
                    rec["after"] = rn.observe()
                    rec["impl2"] = rn.impl_view()
                rec.setdefault("impl", rn.impl_view())
                ev.append(rec)
                rec = None
                if ev[-1]["out"] == "NoObject":
                    break
        except CaseTimeout:
            # the call (or the observation after it) did not come back
            if rec is None:
                op, a, b = sym
                rec = {"op": op, "k": a if isinstance(a, int) else 0, "v": b, "df": b, "m": [], "res": 0}
            rec["out"] = "NoReturn"
            rec["after"] = {"h": "unknown", "items": []}
            rec["impl"] = {"h": "unknown", "cache": [], "dbm": []}
            ev.append(rec)
    finally:
        try:
            signal.setitimer(signal.ITIMER_REAL, 5.0)
            if rn.pd is not None:
                try:
                    rn.pd.close()
                except Exception:
                    pass
        except CaseTimeout:
            pass
        finally:
            signal.setitimer(signal.ITIMER_REAL, 0)
        rn.pd = None
        shutil.rmtree(d, ignore_errors=True)
    return ev


# ---------------------------------------------------------------------------
# worker processes with a wall-clock backstop
# ---------------------------------------------------------------------------

def _worker(slice_, outpath):
    signal.signal(signal.SIGALRM, _on_alarm)
    classes()
    os.chdir(subdir("c20-cwd"))
    with open(outpath, "wb") as fh:
        for c in slice_:
            ev = run_case(c)
            pickle.dump((c["kind"], c["cid"], ev), fh)
            fh.flush()


def run_pool(cases, budget_s, nproc=None):
    """Run all cases in forked workers; a worker that is still busy at the deadline is killed and the case it
    was stuck in is recorded as a single NoReturn event (the others of its slice are run again)."""
    results = {}
    todo = list(cases)
    rounds = 0
    outdir = subdir("c20-out")
    for k in KINDS:                      # scratch roots are created before forking (removed at exit by the parent)
        subdir("c20-" + k)
        fast_subdir("c20-" + k)
    subdir("c20-cwd")
    while todo:
        rounds += 1
        if rounds > 6:
            raise MachineryError("worker pool: cases keep getting lost")
        n = 1 if os.environ.get("VERIF_NOFORK") else min(nproc or NCPU, max(1, len(todo) // (1 if nproc else 100)))
        slices = [todo[i::n] for i in range(n)]
        procs = []
        for i, sl in enumerate(slices):
            outp = os.path.join(outdir, "r%d-w%d.pkl" % (rounds, i))
            pid = os.fork()
            if pid == 0:
                rc = 0
                try:
                    _worker(sl, outp)
                except BaseException:
                    traceback.print_exc()
                    rc = 3
                finally:
                    sys.stdout.flush()
                    sys.stderr.flush()
                    os._exit(rc)
            procs.append((pid, sl, outp))
        deadline = time.time() + budget_s
        status = {}
        pending = {pid for pid, _, _ in procs}
        while pending and time.time() < deadline:
            for pid in list(pending):
                p, st = os.waitpid(pid, os.WNOHANG)
                if p:
                    pending.discard(pid)
                    status[pid] = st
            if pending:
                time.sleep(0.05)
        for pid in pending:
            os.kill(pid, signal.SIGKILL)
            os.waitpid(pid, 0)
            status[pid] = None
        todo = []
        for pid, sl, outp in procs:
            got = set()
            if os.path.exists(outp):
                with open(outp, "rb") as fh:
                    while True:
                        try:
                            kind, cid, ev = pickle.load(fh)
                        except (EOFError, pickle.UnpicklingError):
                            break
                        results[(kind, cid)] = ev
                        got.add((kind, cid))
                os.unlink(outp)
            missing = [c for c in sl if (c["kind"], c["cid"]) not in got]
            if status[pid] is None:
                if missing:
                    hung = missing[0]
                    results[(hung["kind"], hung["cid"])] = [{"op": "case", "out": "NoReturn",
                                                             "after": {"h": "unknown", "items": []}}]
                    todo += missing[1:]
            elif status[pid] != 0 or missing:
                raise MachineryError("replay worker failed (status %r, %d cases missing)" % (status[pid], len(missing)))
    return results


# ---------------------------------------------------------------------------
# TLC: model, generator
# ---------------------------------------------------------------------------

_RE_ACT = re.compile(r"^<(\w+) line \d+, col \d+ to line \d+, col \d+ of module \w+(?: \([\d ]+\))?>: (\d+):(\d+)", re.M)
_RE_H = re.compile(r'<<\s*"H",\s*"((?:[^"\\]|\\.)*)"\s*>>')
_RE_SYM = re.compile(r'<<\\"(\w+)\\", (-?\d+), (-?\d+)>>')

MODEL_CLAUSES = ["INVARIANT TypeOK", "INVARIANT ClosedRaises", "INVARIANT Total", "INVARIANT NonBytesRefused",
                 "INVARIANT CreateExistingRefused", "INVARIANT OpenMissingRefused", "PROPERTY ClosedInert",
                 "PROPERTY ClosePersists", "PROPERTY OpenLoads", "PROPERTY SrcIndependent", "PROPERTY ExistsMonotone",
                 "PROPERTY RefusedNoEffect"]
OPS = ["set", "get", "del", "in", "len", "iter", "getd", "clear", "sync", "close", "create", "fromdict", "open"]
MUST_FIRE = ["G_%s_%s" % (o, x) for o in OPS for x in ("ok", "ref")] + ["G_mutsrc", "G_occupy"]


B_CAP = 1500          # Layer B traces per chunk (quick; thorough: 6000)
SHELF_MUST_FIRE = ("Set", "Get", "GetDefault", "Del", "In", "LenOp", "Iter", "ReadAll", "Clear", "Sync", "Close", "Create", "FromDict",
                   "OpenMissing", "MutSrc", "Occupy")
SHELF_TWINS = ("delKeepsCache", "setSkipsDbm", "clearCacheOnly")


def model_check_shelf():
    """Layer B of DBMDict (ShelfImpl.tla): the code refines PDict and keeps its cache coherent; three faulty twins do not."""
    def cfg(variant, props):
        return MC_CONSTS_SMALL + 'Variant = "%s"\nSPECIFICATION BSpec\nCHECK_DEADLOCK FALSE\n%s' % (variant, props)
    r = run_tlc("ShelfImpl", cfg("code", "INVARIANT TypeOKB\nINVARIANT CacheCoherent\nINVARIANT NoCacheUnlessOpen\nPROPERTY Refines\n"),
                coverage=True, name="shelf-code", heap="2g")
    missing = [a for a in SHELF_MUST_FIRE if (r.coverage or {}).get(a, 0) == 0]
    if missing:
        raise MachineryError("ShelfImpl: actions never taken: %s" % ", ".join(missing))
    twins = {}
    for v in SHELF_TWINS:
        t = run_tlc("ShelfImpl", cfg(v, "PROPERTY Refines\n"), allow_violation=True, name="shelf-" + v, heap="2g")
        if t.violated != "Refines":
            raise MachineryError("ShelfImpl twin %s is not rejected by Refines (vacuous refinement check)" % v)
        twins[v] = "violates Refines"
    return {"module": "spec/store/ShelfImpl.tla", "states": r.distinct, "transitions": r.generated,
            "invariants": ["TypeOKB", "CacheCoherent", "NoCacheUnlessOpen", "Refines (every call is a PDict step, d <- dbm object, onDisk <- committed)"],
            "actions": {a: r.coverage.get(a, 0) for a in SHELF_MUST_FIRE}, "faulty_twins": twins}


def model_check():
    base = MC_CONSTS + "D = 0\nLifecycle = TRUE\nSPECIFICATION GraphSpec\nCHECK_DEADLOCK FALSE\n"
    r = run_tlc("MC_PDict", base + "\n".join(MODEL_CLAUSES) + "\n", name="graph", heap="3g")
    rc = run_tlc("MC_PDict", base + "INVARIANT TypeOK\n", coverage=True, name="graphcov", heap="3g")
    acts = {m.group(1): int(m.group(3)) for m in _RE_ACT.finditer(rc.out) if m.group(1).startswith("G_")}
    missing = [a for a in MUST_FIRE if acts.get(a, 0) == 0]
    if missing:
        raise MachineryError("model actions never taken (vacuous model): %s" % ", ".join(missing))
    if rc.distinct != r.distinct:
        raise MachineryError("graph runs disagree: %s vs %s states" % (r.distinct, rc.distinct))
    return r, acts


SYMTAB = []          # operation symbols; TLC-generated histories are kept as bytes of indices into it
_SYMIDX = {}


def sym_id(sym):
    i = _SYMIDX.get(sym)
    if i is None:
        i = _SYMIDX[sym] = len(SYMTAB)
        SYMTAB.append(sym)
        if i > 255:
            raise MachineryError("more than 256 operation symbols")
    return i


def decode_hist(h):
    return [SYMTAB[i] for i in h] if isinstance(h, bytes) else [tuple(x) for x in h]


def parse_hists(out):
    hs = set()
    for m in _RE_H.finditer(out):
        hs.add(bytes(sym_id((op, int(a), int(b))) for op, a, b in _RE_SYM.findall(m.group(1))))
    return sorted(hs)


def generate(depth, lifecycle, simulate=None, consts=None):
    cfg = (consts or MC_CONSTS) + "D = %d\nLifecycle = %s\nSPECIFICATION HistSpec\nINVARIANT EmitS\nCHECK_DEADLOCK FALSE\n" % (
        depth, "TRUE" if lifecycle else "FALSE")
    if simulate:
        # (in simulation mode TLC evaluates the invariant on every successor it generates, so each random walk
        # contributes its final state together with all its siblings)
        r = run_tlc("MC_PDict", cfg, simulate="num=%d" % simulate, depth=depth + 1, workers=1,
                    extra=("-seed", str(seed() + depth * 31 + (1 if lifecycle else 2))),
                    name="sim%d%s" % (depth, "L" if lifecycle else "S"), heap="2g")
    else:
        r = run_tlc("MC_PDict", cfg, name="hist%d%s" % (depth, "L" if lifecycle else "S"), heap="6g")
    hs = parse_hists(r.out)
    r["out"] = ""
    if not hs or any(len(h) != depth for h in hs):
        raise MachineryError("generator: no histories / wrong depth at D=%d" % depth)
    return hs, r


# ---------------------------------------------------------------------------
# seeded random histories (length up to 50, 5 keys x 3 values, close / reopen anywhere)
# ---------------------------------------------------------------------------

def random_history(rnd, kind, maxlen):
    """The driver keeps only the facts it needs to respect the harness rules (which calls it has made):
    have I got an object, did I call close on it, what is in my own source dict."""
    n = rnd.randint(6, maxlen)
    nk = rnd.randint(1, TRACE_KEYS)
    nv = rnd.randint(1, TRACE_VALS)
    h = []
    have, closed_called, src, made = False, False, None, False
    p_close = rnd.choice([0.02, 0.05, 0.15])
    while len(h) < n:
        k = rnd.randint(1, nk)
        if not have or closed_called:
            ctor_ok = not (kind == "dbm" and made)
            r = rnd.random()
            if ctor_ok and (not have or r < 0.6):
                c = rnd.random()
                if not made and not h and c < 0.06:
                    # a foreign file sits under the path: every constructor that creates must refuse, for ever
                    h.append(("occupy", rnd.randint(0, 1), 0))
                    for _ in range(rnd.randint(1, 3)):
                        h.append(rnd.choice([("create", 0, 0), ("fromdict", [[1, 1]], 0)]))
                    return h
                if not made and c < 0.15:
                    h.append(("open", 0, 0))                       # open a missing path
                elif not made and c < 0.55:
                    items = [[kk, rnd.randint(1, nv)] for kk in range(1, nk + 1) if rnd.random() < 0.5]
                    h.append(("fromdict", items, 0))
                    src = {a: b for a, b in items}
                    have, closed_called, made = True, False, True
                elif not made:
                    h.append(("create", 0, 0))
                    have, closed_called, made = True, False, True
                elif c < 0.75:
                    h.append(("open", 0, 0))                       # reopen
                    closed_called = False
                elif c < 0.9:
                    h.append(("create", 0, 0))                     # create over the existing path
                else:
                    h.append(("fromdict", [[1, 1]], 0))            # from_dict over the existing path
                continue
            if not have:
                continue
        # an object exists (open, or closed: then every call below is a use-after-close)
        r = rnd.random()
        if src is not None and r < 0.08:
            v = rnd.choice([0] + list(range(1, nv + 1)))
            if (v == 0 and k in src) or (v != 0 and src.get(k) != v):
                h.append(("mutsrc", k, v))
                if v == 0:
                    del src[k]
                else:
                    src[k] = v
            continue
        if r < 0.08 + p_close:
            h.append(("close", 0, 0))
            closed_called = True
            continue
        op = rnd.choices(["set", "setnb", "get", "del", "in", "len", "iter", "getd", "clear", "sync"],
                         [30, 4, 12, 14, 6, 4, 4, 10, 3, 6])[0]
        if op == "set":
            h.append(("set", k, rnd.randint(1, nv)))
        elif op == "setnb":
            h.append(("set", k, -1))
        elif op in ("get", "del", "in"):
            h.append((op, k, 0))
        elif op == "getd":
            h.append(("getd", k, rnd.choice([0, -2])))
        else:
            h.append((op, 0, 0))
    return h


# ---------------------------------------------------------------------------

def hist_str(h):
    def one(s):
        op, a, b = s
        if op in ("set", "mutsrc"):
            return "%s(%s,%s)" % (op, a, "NB" if b == -1 else b)
        if op in ("get", "del", "in"):
            return "%s(%s)" % (op, a)
        if op == "getd":
            return "getd(%s,%s)" % (a, "dflt" if b == -2 else "-")
        if op == "fromdict":
            return "fromdict(%s)" % (a if isinstance(a, int) else json.dumps(a, separators=(",", ":")))
        if op == "occupy":
            return "occupy(%s)" % ("empty" if a == 0 else "bytes")
        return op
    return ";".join(one(s) for s in h)


class Tally:
    """What has been executed and judged so far (cases are processed in chunks to bound memory)."""

    def __init__(self):
        self.traces = 0
        self.calls = 0
        self.maxlen = 0
        self.by_class = {k: 0 for k in KINDS}
        self.by_origin = {}
        self.nontrivial_exh = 0
        self.nontrivial_other = set()
        self.tv_states = 0
        self.rej = []               # rejected cases (kept with their events)
        self.rej_count = {}         # key -> count
        self.samples = []
        self.t_exec = 0.0
        self.retried = 0
        self.t_val = 0.0
        self.b_traces = 0           # DBMDict traces validated against ShelfImpl (Layer B)
        self.b_known = 0            # ... in which the shelf object was found
        self.b_drift = {}           # clause -> [tids]


def process(cases, tally, want_samples=()):
    """cases: list of dicts(kind, cid, hist, origin, obs).  Execute, validate, fold into the tally."""
    if not cases:
        return
    t1 = time.time()
    results = run_pool(cases, budget_s=max(120, len(cases) / 200.0))
    # a call that did not come back may be an overloaded machine: such cases are run once more, a few at a time
    # and with a longer limit, before "NoReturn" is taken as the observation
    again = [c for c in cases if any(e["out"] == "NoReturn" for e in results.get((c["kind"], c["cid"]), []))]
    if again:
        global CASE_TIMEOUT
        old_limit, CASE_TIMEOUT = CASE_TIMEOUT, 90.0
        try:
            for i in range(0, len(again), 4 * NCPU):
                results.update(run_pool(again[i:i + 4 * NCPU], budget_s=600, nproc=4))
        finally:
            CASE_TIMEOUT = old_limit
        tally.retried += len(again)
    tally.t_exec += time.time() - t1
    traces = []
    for c in cases:
        ev = results.get((c["kind"], c["cid"]))
        if ev is None:
            raise MachineryError("case %s/%d has no result" % (c["kind"], c["cid"]))
        traces.append({"tid": "%s%d" % (c["kind"][0], c["cid"]), "ev": ev})
    t1 = time.time()
    verdicts, agg = validate_traces("Trace_PDict", traces, consts=CONSTS, shards=tv_shards() if len(traces) > 800 else None,
                                    timeout=3000)
    tally.t_val += time.time() - t1
    tally.tv_states += agg["distinct"]
    # Layer B (DRIFT only): accepted DBMDict traces against ShelfImpl - the write-back cache and the dbm object call by call
    bt = [t for c, t in zip(cases, traces) if c["kind"] == "dbm" and verdicts[t["tid"]]["ok"]
          and all(e["out"] not in ("NoReturn", "NoObject") and "impl" in e for e in t["ev"])]
    if len(bt) > B_CAP:
        bt = random.Random(seed() + 77).sample(bt, B_CAP)
    def with_reads(t):
        # the observation the harness makes after a call (iterate + index every key) is itself a use of the dictionary that
        # fills the write-back cache: it becomes a `readall` event of its own in the Layer B trace
        ev = []
        for e in t["ev"]:
            ev.append(e)
            if e["after"]["h"] == "open" and "impl2" in e:
                ev.append({"op": "readall", "out": "ok", "impl": e["impl2"]})
        return {"tid": t["tid"], "ev": ev}
    bt = [with_reads(t) for t in bt]
    if bt:
        t1 = time.time()
        bver, _ = validate_traces("Trace_ShelfImpl", bt, consts=CONSTS + 'Variant = "code"\n',
                                  shards=tv_shards() if len(bt) > 800 else None, timeout=3000)
        tally.t_val += time.time() - t1
        for t in bt:
            tally.b_traces += 1
            if any(e["impl"]["h"] == "known" for e in t["ev"]):
                tally.b_known += 1
            bv = bver[t["tid"]]
            if not bv["ok"]:
                tally.b_drift.setdefault(bv["clause"], []).append(t["tid"])
    for c, t in zip(cases, traces):
        ev = t["ev"]
        v = verdicts[t["tid"]]
        tally.traces += 1
        tally.calls += len(ev)
        tally.maxlen = max(tally.maxlen, len(c["hist"]))
        tally.by_class[c["kind"]] += 1
        tally.by_origin[c["origin"]] = tally.by_origin.get(c["origin"], 0) + 1
        if any(e["out"] == "ok" and e["op"] in ("set", "del", "clear", "fromdict") for e in ev):
            if c["origin"] == "tlc-exhaustive":
                tally.nontrivial_exh += 1          # the exhaustive sets are duplicate-free by construction
            else:
                tally.nontrivial_other.add((c["kind"], hist_str(decode_hist(c["hist"]))))
        if not v["ok"]:
            key = "%s:%s" % (c["kind"], v["clause"])
            tally.rej_count[key] = tally.rej_count.get(key, 0) + 1
            if tally.rej_count[key] <= 50:
                tally.rej.append({"key": key, "trace": dict(c, ev=ev), "verdict": v})
        if c["cid"] in want_samples:
            tally.samples.append({"class": c["kind"], "origin": c["origin"], "history": hist_str(decode_hist(c["hist"])),
                                  "events": ev})


def main(argv_tier=None, replay_path=None):
    t0 = time.time()
    tr = tier(argv_tier)
    classes()
    # keep every JVM of this check small (the default maximum heap is a quarter of the machine per JVM)
    os.environ.setdefault("JAVA_TOOL_OPTIONS", "-Xmx4g")
    if replay_path:
        with open(replay_path) as fh:
            rp = json.load(fh)
        case = {"kind": rp["kind"], "cid": rp.get("cid", 0), "hist": [tuple(s) for s in rp["history"]],
                "keys": rp.get("keys"), "vals": rp.get("vals"), "obs": rp.get("obs", "full"), "disk": rp.get("disk", False)}
        res = run_pool([case], 60)
        ev = res[(case["kind"], case["cid"])]
        verdicts, _ = validate_traces("Trace_PDict", [{"tid": "replay", "ev": ev}], consts=CONSTS)
        print(json.dumps(ev, indent=1))
        print(rp["kind"], hist_str(case["hist"]))
        print(verdicts)
        return 0 if verdicts["replay"]["ok"] else 1

    quick = tr == "quick"
    global B_CAP
    B_CAP = 1500 if quick else 6000
    # 1. the model
    g, acts = model_check()
    shelf = model_check_shelf()

    # 2.-4. cases out of TLC, executed on the real classes, judged by TLC - in chunks
    D = D_QUICK if quick else D_THOROUGH
    CHUNK = 250000
    gen_runs = {}
    tally = Tally()
    cid = [0]

    def mk(kind, hists, origin, obs="full"):
        out = []
        for h in hists:
            cid[0] += 1
            out.append({"kind": kind, "cid": cid[0], "hist": h, "origin": origin, "obs": obs})
        return out

    for kind, lifecycle in (("pickled", True), ("dbm", False)):
        # (thorough: the depth-5 tree of the single-session generator is enumerated over 2 keys; DBMDict costs ~3x
        # the file operations per case, and the third key only matters once three sets have been made)
        consts = MC_CONSTS if quick or lifecycle else MC_CONSTS_SMALL
        hs, r = generate(D, lifecycle, consts=consts)
        gen_runs["exhaustive D=%d %s" % (D, kind)] = {"histories": len(hs), "states": r.distinct, "transitions": r.generated,
                                                      "universe": " ".join(consts.split()[1:])}
        if quick and len(hs) > QUICK_SAMPLE:
            # quick tier: every history of depth D-1 plus a seeded sample of the depth-D tree (thorough replays all of it)
            full = len(hs)
            hs = random.Random(seed() + 2020).sample(hs, QUICK_SAMPLE)
            hs3, r3 = generate(D - 1, lifecycle, consts=consts)
            gen_runs["exhaustive D=%d %s" % (D, kind)]["replayed_sample"] = len(hs)
            gen_runs["exhaustive D=%d %s" % (D - 1, kind)] = {"histories": len(hs3), "states": r3.distinct, "transitions": r3.generated}
            hs = hs3 + hs
        for i in range(0, len(hs), CHUNK):
            cs = mk(kind, hs[i:i + CHUNK], "tlc-exhaustive")
            process(cs, tally, want_samples=(cs[len(cs) // 3]["cid"],) if i == 0 else ())
        del hs
    other = []
    for kind, lifecycle in (("pickled", True), ("dbm", False)):
        for depth, num in SIM_QUICK if quick else SIM_THOROUGH:
            hs, r = generate(depth, lifecycle, simulate=num)
            gen_runs["simulate D=%d %s" % (depth, kind)] = {"walks": num, "histories": len(hs)}
            other += mk(kind, hs, "tlc-simulate")
    rnd = random.Random(seed() + 20)
    nrand = 2000 if quick else 20000
    for kind in KINDS:
        other += mk(kind, [random_history(rnd, kind, 50) for _ in range(nrand)], "random")
        other += mk(kind, [random_history(rnd, kind, 50) for _ in range(nrand // 2)], "random", obs="sparse")
    for i in range(0, len(other), CHUNK):
        cs = other[i:i + CHUNK]
        process(cs, tally, want_samples=(cs[0]["cid"], cs[-1]["cid"]) if i == 0 else ())

    viol, seen = classify(PROP, tally.rej)
    # report the shortest history of every (class, clause) first
    viol.sort(key=lambda x: (x["verdict"]["step"], len(x["trace"]["hist"]), x["trace"]["cid"]))
    by_key = {}
    for x in viol:
        by_key.setdefault(x["key"], []).append(x)
    ordered = [v[0] for v in by_key.values()] + [x for v in by_key.values() for x in v[1:]]
    vio_out = []
    for x in ordered[:20]:
        c = x["trace"]
        hist = decode_hist(c["hist"])
        keys, vals, _ = concretise(c)
        p = write_replay(PROP, "%s%d" % (c["kind"][0], c["cid"]),
                         {"kind": c["kind"], "cid": c["cid"], "history": [list(s) for s in hist], "obs": c["obs"],
                          "disk": c["origin"] == "random",
                          "keys": [k.hex() for k in keys], "vals": [v.hex() for v in vals],
                          "events": c["ev"], "verdict": x["verdict"], "seed": seed(), "history_text": hist_str(hist)})
        vio_out.append(("%s step %d %s history=%s" % (c["kind"], x["verdict"]["step"], x["verdict"]["clause"],
                                                      hist_str(hist[:x["verdict"]["step"]])), p))
    if viol:
        print("%s: rejected traces by (class, clause):" % PROP)
        for k, v in sorted(by_key.items()):
            h = decode_hist(v[0]["trace"]["hist"])
            print("  %-45s %8d   shortest: %s" % (k, tally.rej_count[k], hist_str(h[:v[0]["verdict"]["step"]])))

    for key, tids in sorted(tally.b_drift.items()):
        print("DRIFT property=%s DBMDict is not the shelf of ShelfImpl.tla any more (%s) in %d trace(s), e.g. %s"
              % (PROP, key, len(tids), tids[0]))
    shelf.update({"traces_validated": tally.b_traces, "traces_with_shelf_found": tally.b_known,
                  "drift": {k: len(v) for k, v in tally.b_drift.items()},
                  "what": "accepted DBMDict traces replayed on ShelfImpl (Trace_ShelfImpl): same outcome and result per call, same "
                          "key sets in the write-back cache and in the dbm object after every call (found by shape; DRIFT only)"})
    from common import tlaps_prove
    cov = {
        "layerB_shelf": shelf,
        "tlaps_proof": tlaps_prove("PDict_proofs"),
        "states": g.distinct, "transitions": g.generated,
        "model_actions": acts,
        "model_clauses_checked": MODEL_CLAUSES,
        "generator_runs": gen_runs,
        "traces_validated_against_impl": tally.traces,
        "traces_by_class": tally.by_class,
        "traces_by_origin": tally.by_origin,
        "calls_recorded": tally.calls,
        "max_history_length": tally.maxlen,
        "trace_validation_states": tally.tv_states,
        "rejected_traces": sum(tally.rej_count.values()),
        "rejections_by_clause": dict(sorted(tally.rej_count.items())),
        "evaluations": tally.traces, "distinct_nontrivial": tally.nontrivial_exh + len(tally.nontrivial_other),
        "rule": "every history of MC_PDict.HistSpec of depth %d (3 keys x 2 values + a non-bytes value, up to renaming of "
                "keys/values; full life cycle for PickledDict, single open session for DBMDict), TLC -simulate histories of "
                "depth %s (final states with all siblings), and %d seeded random histories of length 6..50 over 5 keys x 3 "
                "values per class (one third with sparse observation); non-trivial = at least one accepted mutation "
                "(set/del/clear/from_dict); distinct = distinct (class, history)"
                % (D, "/".join(str(d_) for d_, _ in (SIM_QUICK if quick else SIM_THOROUGH)), nrand + nrand // 2),
        "exhaustive": True,
        "samples": tally.samples,
        "model": "spec/store/PDict.tla via MC_PDict (GraphSpec: complete state graph; HistSpec D=%d); trace spec Trace_PDict" % D,
        "cases_rerun_after_timeout": tally.retried,
        "seconds": {"execute": round(tally.t_exec, 1), "validate": round(tally.t_val, 1)},
    }
    return finish(PROP, tr, t0, cov, vio_out, seen,
                  assumptions=["iteration order is not compared (the reference is a dict as a set of items); closing a closed "
                               "dictionary may be a no-op or raise ValueError; set(key, non-bytes) on a closed dictionary may "
                               "raise TypeError or ValueError",
                               "DBMDict is exercised within one open session per path only (dbm.dumb is the only backend here "
                               "and the class cannot reopen its own files); create-over-existing is therefore not exercised on DBMDict",
                               "key / value names of the model are instantiated with byte strings from fixed pools (incl. b'' "
                               "and NUL bytes), a different assignment per case",
                               "crash without close, two objects on one path, and release() are outside the property"])
