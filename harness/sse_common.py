"""Shared fixtures for the nine SSE schemes: names, small workflow-usable configurations, concrete valid
databases generated from abstract length profiles, result comparison.

A *profile* is a list of posting-list lengths, one per keyword. `make_db(profile, id_size, rnd)` instantiates
it with random keywords / identifiers that satisfy the validity rules of the property text: keywords are
non-empty byte strings without a leading NUL, identifiers have exactly `id_size` bytes, are not all-zero, and
every posting list is duplicate-free.
"""
import copy
import random

SCHEMES = ["CGKO06.SSE1", "CGKO06.SSE2", "CJJ14.PiBas", "CJJ14.PiPack", "CJJ14.PiPtr", "CJJ14.Pi2Lev",
           "CT14.Pi", "ANSS16.Scheme3", "DP17.Pi"]

SET_RESULT = {"DP17.Pi"}          # result type is a set


def load(scheme):
    import schemes
    return schemes.load_sse_module(scheme)


def default_config(scheme):
    return copy.deepcopy(load(scheme).SSEConfig.get_default_config())


def id_size_of(cfg):
    return cfg.get("param_identifier_size", 8)


def rand_id(size, rnd, shaped=False):
    """`size` bytes, not all-zero. shaped=False: uniformly random with a non-zero first byte (what the checks that reason
    about chance substring hits need). shaped=True: mostly random; sometimes a shape that byte-level parsers may mishandle: leading NUL bytes,
    trailing NUL bytes, all 0xff, a single set bit."""
    while not shaped:
        b = bytes(rnd.randrange(256) for _ in range(size))
        if b[0] != 0:
            return b
    while True:
        r = rnd.random()
        if r < 0.70 or size == 1:
            b = bytes(rnd.randrange(256) for _ in range(size))
        elif r < 0.80:
            z = rnd.randint(1, size - 1)
            b = b"\x00" * z + bytes(rnd.randrange(1, 256) for _ in range(size - z))          # leading NULs
        elif r < 0.90:
            z = rnd.randint(1, size - 1)
            b = bytes(rnd.randrange(1, 256) for _ in range(size - z)) + b"\x00" * z          # trailing NULs
        elif r < 0.95:
            b = b"\xff" * size
        else:
            b = (1 << rnd.randrange(8 * size)).to_bytes(size, "big")
        if any(b):
            return b


def rand_kw(rnd, n=None):
    n = n or rnd.randint(6, 10)
    return bytes([rnd.randrange(1, 256)]) + bytes(rnd.randrange(256) for _ in range(n - 1))


def shaped_kw(rnd, existing, maxlen):
    """a keyword with a shape that padding / integer conversion may mishandle: length 1, maximal length, trailing NULs,
    an existing keyword extended or cut. None if it cannot be made fresh."""
    r = rnd.random()
    ex = list(existing)
    if r < 0.2:
        k = bytes([rnd.randrange(1, 256)])
    elif r < 0.4:
        k = rand_kw(rnd, maxlen)
    elif r < 0.6:
        k = rand_kw(rnd, rnd.randint(2, min(8, maxlen))) [:-1] + b"\x00"
    elif r < 0.8 and ex:
        k = (rnd.choice(ex) + bytes([rnd.randrange(256)]))[:maxlen]
    elif ex:
        k = rnd.choice(ex)[:-1]
    else:
        k = rand_kw(rnd, 3)
    if k and k[0] != 0 and k not in existing and len(k) <= maxlen:
        return k
    return None


def make_db(profile, id_size, rnd, kw_len=None, shared_ids=False, kw_maxlen=None, shaped_ids=False):
    """profile: list of list lengths -> {keyword: [identifier,...]} in insertion order.
    shared_ids: the same identifier pool is used under every keyword (identifier j of every list is pool[j])."""
    db = {}
    total = sum(profile)
    cap = 256 ** id_size - 256 ** (id_size - 1)
    pool = []
    if shared_ids:
        if max(profile, default=0) > cap:
            raise ValueError("identifier space too small")
        seen = set()
        while len(pool) < max(profile, default=0):
            x = rand_id(id_size, rnd, shaped_ids)
            if x not in seen:
                seen.add(x)
                pool.append(x)
    for n in profile:
        while True:
            kw = None
            if kw_maxlen and rnd.random() < 0.3:
                kw = shaped_kw(rnd, db, kw_maxlen)
            if kw is None:
                kw = rand_kw(rnd, kw_len)
            if kw not in db:
                break
        if shared_ids:
            db[kw] = list(pool[:n])
            continue
        if n > cap:
            raise ValueError("identifier space too small for a duplicate-free list of %d" % n)
        ids, seen = [], set()
        while len(ids) < n:
            x = rand_id(id_size, rnd, shaped_ids)
            if x not in seen:
                seen.add(x)
                ids.append(x)
        db[kw] = ids
    return db


def distinct_files(db):
    s = set()
    for v in db.values():
        s.update(v)
    return len(s)


def total(db):
    return sum(len(v) for v in db.values())


def next_pow2(n):
    p = 1
    while p < n:
        p *= 2
    return p


def fit_config(scheme, cfg, db):
    """Fill in / shrink the capacity parameters that depend on the database, so that `db` is valid for `cfg`
    (array size, dictionary size, SSE-2's number of files). Returns a new dict."""
    cfg = copy.deepcopy(cfg)
    if scheme == "CGKO06.SSE1":
        cfg["param_s"] = max(8, next_pow2(total(db) + 2))
        cfg["param_dictionary_size"] = max(8, next_pow2(len(db)))
    elif scheme == "CGKO06.SSE2":
        cfg["param_n"] = max(2, distinct_files(db))
        cfg["param_dictionary_size"] = max(8, next_pow2(len(db)))
    return cfg


def workflow_config(scheme, db):
    return fit_config(scheme, default_config(scheme), db)


def as_bytes(x):
    """identifiers may come back as any bytes-like object (bytearray == bytes): compared and hashed as bytes"""
    return bytes(x) if isinstance(x, (bytearray, memoryview)) else x


def ordered(res, expected):
    """what get_result_list() returned as a list of hashable identifiers; a set result is put into the expected order"""
    if isinstance(res, (set, frozenset)):
        res = [as_bytes(x) for x in res]
        return sorted(res, key=lambda x: expected.index(x) if x in expected else -1)
    return [as_bytes(x) for x in res]


def same_result(scheme, got, expected):
    """got: what get_result_list() returned; expected: the posting list (list)."""
    if scheme in SET_RESULT:
        try:
            g = [as_bytes(x) for x in got]
            return set(g) == set(expected) and len(g) == len(set(expected))
        except TypeError:
            return False
    return [as_bytes(x) for x in got] == list(expected)


def result_positions(got, expected):
    """Map each returned identifier to its 1-based position in the expected list (0 = foreign). For traces."""
    pos = {x: i + 1 for i, x in enumerate(expected)}
    return [pos.get(as_bytes(x), 0) for x in got]
