"""Shared fixtures for the nine SSE schemes: names, small workflow-usable configurations, concrete valid
databases generated from abstract length profiles, result comparison.

A *profile* is a list of posting-list lengths, one per keyword. `make_db(profile, id_size, rnd)` instantiates
it with random keywords / identifiers that satisfy the validity rules of the property text: keywords are
non-empty byte strings without a leading NUL, identifiers have exactly `id_size` bytes, are not all-zero, and
every posting list is duplicate-free.
"""
import copy
import random

SCHEMES = ["CGKO06.SSE1", "CGKO06.SSE2", "CJJ14.PiBas", "CJJ14.PiPack", "CJJ14.PiPtr", "CJJ14.Pi2Lev",
           "CT14.Pi", "ANSS16.Scheme3", "DP17.Pi"]

SET_RESULT = {"DP17.Pi"}          # result type is a set


def load(scheme):
    import schemes
    return schemes.load_sse_module(scheme)


def default_config(scheme):
    return copy.deepcopy(load(scheme).SSEConfig.get_default_config())


def id_size_of(cfg):
    return cfg.get("param_identifier_size", 8)


def rand_id(size, rnd):
    """`size` random bytes, first byte non-zero (hence not all-zero, and usable as a big-endian integer of that width)."""
    while True:
        b = bytes(rnd.randrange(256) for _ in range(size))
        if b[0] != 0:
            return b


def rand_kw(rnd, n=None):
    n = n or rnd.randint(6, 10)
    return bytes([rnd.randrange(1, 256)]) + bytes(rnd.randrange(256) for _ in range(n - 1))


def make_db(profile, id_size, rnd, kw_len=None, shared_ids=False):
    """profile: list of list lengths -> {keyword: [identifier,...]} in insertion order.
    shared_ids: the same identifier pool is used under every keyword (identifier j of every list is pool[j])."""
    db = {}
    total = sum(profile)
    cap = 256 ** id_size - 256 ** (id_size - 1)
    pool = []
    if shared_ids:
        if max(profile, default=0) > cap:
            raise ValueError("identifier space too small")
        seen = set()
        while len(pool) < max(profile, default=0):
            x = rand_id(id_size, rnd)
            if x not in seen:
                seen.add(x)
                pool.append(x)
    for n in profile:
        while True:
            kw = rand_kw(rnd, kw_len)
            if kw not in db:
                break
        if shared_ids:
            db[kw] = list(pool[:n])
            continue
        if n > cap:
            raise ValueError("identifier space too small for a duplicate-free list of %d" % n)
        ids, seen = [], set()
        while len(ids) < n:
            x = rand_id(id_size, rnd)
            if x not in seen:
                seen.add(x)
                ids.append(x)
        db[kw] = ids
    return db


def distinct_files(db):
    s = set()
    for v in db.values():
        s.update(v)
    return len(s)


def total(db):
    return sum(len(v) for v in db.values())


def next_pow2(n):
    p = 1
    while p < n:
        p *= 2
    return p


def fit_config(scheme, cfg, db):
    """Fill in / shrink the capacity parameters that depend on the database, so that `db` is valid for `cfg`
    (array size, dictionary size, SSE-2's number of files). Returns a new dict."""
    cfg = copy.deepcopy(cfg)
    if scheme == "CGKO06.SSE1":
        cfg["param_s"] = max(8, next_pow2(total(db) + 2))
        cfg["param_dictionary_size"] = max(8, next_pow2(len(db)))
    elif scheme == "CGKO06.SSE2":
        cfg["param_n"] = max(2, distinct_files(db))
        cfg["param_dictionary_size"] = max(8, next_pow2(len(db)))
    return cfg


def workflow_config(scheme, db):
    return fit_config(scheme, default_config(scheme), db)


def same_result(scheme, got, expected):
    """got: what get_result_list() returned; expected: the posting list (list)."""
    if scheme in SET_RESULT:
        try:
            return set(got) == set(expected) and len(got) == len(set(expected))
        except TypeError:
            return False
    return list(got) == list(expected)


def result_positions(got, expected):
    """Map each returned identifier to its 1-based position in the expected list (0 = foreign). For traces."""
    pos = {x: i + 1 for i, x in enumerate(expected)}
    return [pos.get(x, 0) for x in got]
