"""Shared pieces of the primitive-wrapper checks C14 (SKE) and C16 (PHash).

- environment set-up for importing /repo (scratch HOME, sys.path)
- two-layer trace validation: Layer "B" (property + code-shaped clauses) first; traces rejected
  only by a "B:" clause are re-validated against Layer "A" -> violations / drift
- verdict plumbing shared by both checks (replay files, evidence fields)
"""
import json
import os
import sys

from common import (REPO, MachineryError, classify, seed, subdir, validate_traces, write_replay)


def setup_env():
    home = subdir("home")
    os.environ["HOME"] = home
    if REPO not in sys.path:
        sys.path.insert(0, REPO)


def hx(b):
    return bytes(b).hex()


def unhx(s):
    return bytes.fromhex(s)


def outcome_of(ex):
    """Exception -> outcome string of the trace record (ValueError and its subclasses are 'ValueError')."""
    if isinstance(ex, ValueError):
        return "ValueError"
    return type(ex).__name__


def validate_layers(trace_module, traces, name):
    """traces: [{"tid", "ev"}].  Returns (rejA, drift, agg):
    rejA  {tid: verdict} rejected by Layer A (the property)       -> violations
    drift {tid: verdict} accepted by Layer A, rejected by Layer B -> DRIFT lines only
    """
    vb, agg = validate_traces(trace_module, traces, consts='CONSTANT Layer = "B"\n', name=name + "-B")
    rej_a, drift = {}, {}
    again = []
    by_tid = {t["tid"]: t for t in traces}
    for tid, v in vb.items():
        if v["ok"]:
            continue
        if v["clause"].startswith("B:"):
            again.append(by_tid[tid])
            drift[tid] = v
        else:
            rej_a[tid] = v
    if again:
        # a B-only rejection stops the trace at that event: judge the whole trace against the property alone
        va, agg2 = validate_traces(trace_module, again, consts='CONSTANT Layer = "A"\n', name=name + "-A")
        agg["generated"] += agg2["generated"]
        agg["distinct"] += agg2["distinct"]
        for tid, v in va.items():
            if not v["ok"]:
                rej_a[tid] = v
                drift.pop(tid, None)
    return rej_a, drift, agg


def report(prop, scripts_by_tid, traces, rej_a, drift, describe):
    """-> (violations [(desc, replay_path)], known_seen, drift_list) ; prints DRIFT lines."""
    by_tid = {t["tid"]: t for t in traces}
    rej = []
    for tid, v in sorted(rej_a.items()):
        if v["clause"].startswith("A:oracle-incomplete"):
            raise MachineryError("the harness did not supply every reference value the specification needs (trace %s)" % tid)
        rej.append({"key": v["clause"], "tid": tid, "verdict": v, "trace": by_tid[tid]})
    viol, seen = classify(prop, rej)
    out = []
    for x in viol[:20]:
        tid = x["tid"]
        ev = x["trace"]["ev"]
        step = x["verdict"]["step"]
        bad = ev[step - 1] if 0 < step <= len(ev) else {}
        p = write_replay(prop, tid.replace("/", "_"), {"script": scripts_by_tid.get(tid), "events": ev,
                                                      "verdict": x["verdict"], "seed": seed()})
        out.append(("%s step %d clause %s %s" % (tid, step, x["verdict"]["clause"], describe(bad)), p))
    out += [("(further violation)", "-")] * max(0, len(viol) - 20)
    dl = []
    for tid, v in sorted(drift.items()):
        ev = by_tid[tid]["ev"]
        step = v["step"]
        bad = ev[step - 1] if 0 < step <= len(ev) else {}
        dl.append({"tid": tid, "step": step, "clause": v["clause"], "case": describe(bad)})
    for d in dl[:10]:
        print("DRIFT property=%s trace=%s step=%d clause=%s %s" % (prop, d["tid"], d["step"], d["clause"], d["case"]))
    if len(dl) > 10:
        print("DRIFT property=%s ... %d more" % (prop, len(dl) - 10))
    return out, seen, dl


def load_replay(path):
    with open(path) as fh:
        rp = json.load(fh)
    if not rp.get("script"):
        raise MachineryError("replay file has no script: " + path)
    return rp
