"""C13 — a crash between persistence steps never leaves a service unusable.

Layer B: spec/fe/Persist.tla — the persisting handlers as sequences of file-system operations, the loaders,
a Crash action between any two operations (with the three resolutions of a file open for writing) and a
retrying operator; TLC checks Usable and (under fairness) Reaches(done) and emits every crash point.
Binding: the recorded FS-operation sequence of each real handler must be the program the model has (drift
otherwise); every crash point (component, handler, k, before/after, resolution) is executed on the real
client + server (fsx interposition), the component is restarted on the same directory and the operator
continues; the recorded run is validated by TLC against Trace_CrashRecovery (Layer A over ClientSM).
"""
import asyncio
import copy
import os
import random
import shutil
import time

from common import (REPO, MachineryError, classify, finish, pmap, run_tlc, seed, subdir, tier, validate_traces,
                    write_replay, parse_printed, tla_value)
import fe_server as fs
import fe_world
import fsx

PROP = "C13"
WORKFLOW = ["create", "genkey", "encrypt", "upconfig", "upindex"]
SERVER_HANDLERS = ["upconfig", "upindex"]
CLIENT_HANDLERS = ["create", "genkey", "encrypt", "upconfig", "upindex"]


def fixtures(scheme="CJJ14.PiBas"):
    fs.setup_env(REPO)
    import schemes
    ml = schemes.load_sse_module(scheme)
    cfg = copy.deepcopy(ml.SSEConfig.get_default_config())
    rnd = random.Random(seed() + 13)

    def ident(n=8):
        return bytes(rnd.randrange(1, 256) for _ in range(n))
    db = {b"alpha": [ident() for _ in range(3)], b"beta": [ident()], b"gamma": [ident(), ident()]}
    return {"cfg": cfg, "db": db, "absent": b"delta"}


def dirsnap(root):
    """[(path below the service directory, size)] for every file under root (the sid component is dropped)"""
    out = []
    for dp, _dn, fn in os.walk(root):
        for f in fn:
            p = os.path.join(dp, f)
            rel = os.path.relpath(p, root).split(os.sep)
            out.append(["/".join(rel[1:]) if len(rel) > 1 else rel[0], os.path.getsize(p)])
    return sorted(out)


class Run:
    def __init__(self, fx, base):
        self.fx = fx
        self.base = base
        self.w = fe_world.World(REPO, base, echo_cap=30)
        fsx.clear()
        self.comp = {"server": fsx.register("server", self.w.sdir), "client": fsx.register("client", self.w.cdir)}
        self.sid = ""
        self.ev = []

    def arg(self, op):
        if op == "create":
            return copy.deepcopy(self.fx["cfg"])
        if op == "encrypt":
            return copy.deepcopy(self.fx["db"])
        return None

    async def op(self, op, keep=False, watch=None):
        """Run a client operation as a task; if the watched component dies, stop waiting at once."""
        t = asyncio.ensure_future(self.w.client_op(op, self.sid, self.arg(op), keep=keep))
        while not t.done():
            await asyncio.wait({t}, timeout=0.005)
            if watch is not None and watch.dead and not t.done():
                await asyncio.sleep(0.01)
                if not t.done():
                    t.cancel()
                break
        try:
            r = await t
        except asyncio.CancelledError:
            r = {"out": "interrupted", "err": "", "sid": self.sid}
        except fsx.CrashNow:
            r = {"out": "crashed", "err": "", "sid": self.sid}
        if op == "create" and r.get("out") == "ok":
            self.sid = r["sid"]
        return r

    async def searches(self):
        for w, exp in list(self.fx["db"].items()) + [(self.fx["absent"], [])]:
            r = await self.w.client_op("search", self.sid, w)
            self.ev.append({"e": "search", "out": "ok" if r["out"] == "ok" else r["out"] + ":" + r.get("err", ""),
                            "correct": r["out"] == "ok" and r["result"] == exp})
            if r["out"] != "ok":
                break           # the trace is rejected at this event whatever follows; a search that gets no answer costs the echo cap

    async def probe(self):
        """raw handshake with the restarted server"""
        import pickle
        ok, rep = False, -1
        try:
            ws = await self.w.websockets.unix_connect(self.w.sock, max_size=None)
            await ws.send(pickle.dumps({"type": "init", "sid": self.sid}))
            m = pickle.loads(await asyncio.wait_for(ws.recv(), 3))
            c = pickle.loads(m["content"])
            ok, rep = bool(c.get("ok")), int(c.get("state", -1))
            await ws.close()
            await asyncio.sleep(0.02)
        except Exception as ex:
            ok, rep = False, -1
            self.probe_err = repr(ex)
        return ok, rep

    async def dry(self, comp_name, handler):
        """-> list of (k, op, rel) performed by `comp_name` during `handler` (no crash)."""
        await self.w.start_server()
        c = self.comp[comp_name]
        for op in WORKFLOW:
            if op == handler:
                k0 = c.count
                r = await self.op(op, keep=True)
                ops = [x for x in c.log if x[0] > k0]
                await self.w.drop_client()
                await self.w.shutdown()
                if r["out"] != "ok":
                    raise MachineryError("dry run: %s failed: %s" % (op, r))
                return k0, ops
            r = await self.op(op)
            if r["out"] != "ok":
                raise MachineryError("dry run: step %s failed: %s" % (op, r))
        raise MachineryError("no such handler " + handler)

    async def crash_run(self, comp_name, handler, k, when, res):
        await self.w.start_server()
        c = self.comp[comp_name]
        for op in WORKFLOW:
            if op == handler:
                break
            r = await self.op(op)
            self.ev.append({"e": "step", "op": op, "out": r["out"]})
        c.plan = (k, when, res)
        r = await self.op(handler, keep=True, watch=c)
        if not c.dead:
            # the plan's operation was not reached (cannot happen if the dry run is representative)
            self.ev.append({"e": "nocrash"})
            await self.w.shutdown()
            return self.ev
        self.ev.append({"e": "crash", "comp": comp_name, "h": handler})
        self.snap_after_crash = dirsnap(self.w.sdir if comp_name == "server" else self.w.cdir)
        # ---- the component dies ...
        if comp_name == "server":
            await self.w.stop_server(graceful=False)
            await self.w.drop_client(persist=True)      # the user's client gives up on the dead connection
            fsx.revive(c)
            await self.w.start_server()                 # ... and is restarted on the same directory
        else:
            await self.w.drop_client(persist=False)
            await asyncio.sleep(0.02)
            fsx.revive(c)
        await self.recover(handler)
        return self.ev

    async def recover(self, handler):
        # ---- after the restart
        if self.sid:
            ok, rep = await self.probe()
            self.ev.append({"e": "probe", "ok": ok, "rep": rep})
            try:
                s = self.w.new_service(self.sid)
                self.ev.append({"e": "load", "ok": True})
                del s
            except Exception as ex:
                self.ev.append({"e": "load", "ok": False, "err": type(ex).__name__})
        # ---- the operator retries the interrupted step and continues
        for op in WORKFLOW[WORKFLOW.index(handler):]:
            r = await self.op(op)
            out = r["out"]
            if out == "raised" and "ValueError" in r.get("mro", [r.get("err")]):
                out = "already"          # a refusal (ValueError or a subclass); Layer A accepts it only if the step's effect is already in place (AlreadyDone)
            elif out != "ok":
                out = out + ":" + r.get("err", "")
            self.ev.append({"e": "rstep", "op": op, "out": out, "msg": r.get("msg", "")})
        await self.searches()
        self.ev.append({"e": "end"})
        await self.w.shutdown()

    async def real_kill_run(self, comp_name, handler, j, when):
        """The same crash point, but the component is a CHILD PROCESS that really dies (os._exit) at the operation."""
        import pickle
        import subprocess
        import sys
        child = os.path.join(os.path.dirname(os.path.abspath(__file__)), "c13_child.py")
        await self.w.start_server()
        for op in WORKFLOW:
            if op == handler:
                break
            r = await self.op(op)
            self.ev.append({"e": "step", "op": op, "out": r["out"]})
        env = dict(os.environ)
        if comp_name == "client":
            payload = os.path.join(self.base, "db.pickle")
            with open(payload, "wb") as fh:
                pickle.dump(self.fx["db"], fh)
            p = subprocess.run([sys.executable, "-B", child, REPO, os.environ["HOME"], "client", str(self.w.cdir), str(j), when,
                                handler, self.sid, payload], env=env, stdout=subprocess.PIPE, stderr=subprocess.STDOUT, timeout=120)
            self.child_rc = p.returncode
        else:
            await self.w.stop_server()
            p = subprocess.Popen([sys.executable, "-B", child, REPO, os.environ["HOME"], "server", str(self.w.sdir), str(j), when],
                                 env=env, stdout=subprocess.PIPE, stderr=subprocess.STDOUT, text=True)
            line = ""
            for _ in range(200):        # warnings printed at import time may come first
                line = await asyncio.get_running_loop().run_in_executor(None, p.stdout.readline)
                if line.startswith("PORT") or not line:
                    break
            if not line.startswith("PORT"):
                p.kill()
                raise MachineryError("server child did not start: %r" % line)
            self.w.global_config.ClientConfig.SERVER_URI = "ws://127.0.0.1:%d" % int(line.split()[1])
            self.w.use_tcp = True        # the child serves on a TCP port
            self.w.cproxy.cap = 3
            t = asyncio.ensure_future(self.w.client_op(handler, self.sid, None, keep=True))
            while p.poll() is None and not t.done():
                await asyncio.sleep(0.01)
            if p.poll() is None:        # the operation finished and the child is still alive: the plan was not reached
                p.kill()
            else:
                await asyncio.sleep(0.05)
                t.cancel()
            try:
                await t
            except BaseException:
                pass
            self.child_rc = p.wait()
            await self.w.drop_client(persist=True)
            self.w.cproxy.cap = 30
            self.w.use_tcp = False
            await self.w.start_server()
        self.ev.append({"e": "crash", "comp": comp_name, "h": handler})
        self.snap_after_crash = dirsnap(self.w.sdir if comp_name == "server" else self.w.cdir)
        await self.recover(handler)
        return self.ev


def _loop_run(coro_fn, run=None, limit=None):
    """run: the Run whose events are returned with a closing "noreturn" event when the recovery does not come back within
    the limit (a hang is an observation for the trace spec to judge - "the interrupted step cannot be completed" - not a
    failure of the machinery); the event says where the run was waiting."""
    limit = limit or float(os.environ.get("VERIF_C13_LIMIT", "300"))
    loop = asyncio.new_event_loop()
    loop.set_exception_handler(lambda l, c: None)
    try:
        task = loop.create_task(coro_fn())
        loop.run_until_complete(asyncio.wait({task}, timeout=limit))
        if task.done():
            return task.result()
        where = []
        for t in asyncio.all_tasks(loop):
            c = t.get_coro()
            while c is not None:          # follow the chain of awaits down to where the task is suspended
                fr = getattr(c, "cr_frame", None) or getattr(c, "gi_frame", None) or getattr(c, "ag_frame", None)
                if fr is None:
                    break
                where.append("%s:%d %s" % (os.path.basename(fr.f_code.co_filename), fr.f_lineno, fr.f_code.co_name))
                c = getattr(c, "cr_await", None) or getattr(c, "gi_yieldfrom", None) or getattr(c, "ag_await", None)
            where.append("--")
        task.cancel()
        loop.run_until_complete(asyncio.wait({task}, timeout=5))
        if run is None:
            raise asyncio.TimeoutError("no return within %s s; waiting at %s" % (limit, where[:12]))
        run.ev.append({"e": "noreturn", "where": where[:40]})
        return run.ev
    finally:
        loop.close()


def dry_ops(fx):
    out = {}
    fsx.install()
    try:
        for comp, hs in (("server", SERVER_HANDLERS), ("client", CLIENT_HANDLERS)):
            for h in hs:
                d = os.path.join(subdir("c13-dry"), "%s-%s" % (comp, h))
                r = Run(fx, d)
                k0, ops = _loop_run(lambda: r.dry(comp, h))
                out[(comp, h)] = (k0, ops)
                shutil.rmtree(d, ignore_errors=True)
    finally:
        fsx.uninstall()
    return out


def plans_from(ops_by_handler):
    """Crash plans: before and after every FS mutation; runs of buffered writes to one file are one point;
    the resolution matters only while a file is open for writing."""
    plans = []
    for (comp, h), (k0, ops) in sorted(ops_by_handler.items()):
        open_file = None
        prev = None
        for (k, op, rel) in ops:
            for when in ("before", "after"):
                if op == "write" and prev and prev[1] == "write" and prev[2] == rel and when == "before":
                    continue
                is_open = (open_file is not None and not (op == "open_w" and when == "before")) or (op == "open_w" and when == "after")
                if op == "close" and when == "after":
                    is_open = False
                for res in (("empty", "partial", "full") if is_open else ("empty",)):
                    plans.append((comp, h, k, when, res, op, rel))
            if op == "open_w":
                open_file = rel
            elif op == "close":
                open_file = None
            prev = (k, op, rel)
    return plans


def program_of(ops):
    """Collapse an op log to the program the Layer B model has: (op, file) with write runs merged."""
    prog = []
    for (_k, op, rel) in ops:
        name = os.path.basename(rel)
        item = [op, name if op != "mkdir" else "dir"]
        if op == "write" and prog and prog[-1] == item:
            continue
        prog.append(item)
    return prog


def execute(fx, plan, idx):
    comp, h, k, when, res = plan[:5]
    d = os.path.join(subdir("c13-data"), "p%d" % idx)
    fsx.install()
    try:
        r = Run(fx, d)
        ev = _loop_run(lambda: r.crash_run(comp, h, k, when, res), r)
    finally:
        fsx.uninstall()
        fsx.clear()
        shutil.rmtree(d, ignore_errors=True)
    return ev


def execute_real(fx, plan, k0, idx):
    """-> (events, child exit code, directory snapshot right after the real kill)"""
    comp, h, k, when = plan[:4]
    d = os.path.join(subdir("c13-real"), "r%d" % idx)
    os.makedirs(d, exist_ok=True)
    r = Run(fx, d)
    try:
        ev = _loop_run(lambda: r.real_kill_run(comp, h, k - k0, when), r)
    finally:
        shutil.rmtree(d, ignore_errors=True)
    return ev, getattr(r, "child_rc", None), getattr(r, "snap_after_crash", None)


def execute_snap(fx, plan, idx):
    """emulated crash: the directory snapshot right after the crash"""
    comp, h, k, when, res = plan[:5]
    d = os.path.join(subdir("c13-data"), "q%d" % idx)
    fsx.install()
    try:
        r = Run(fx, d)
        _loop_run(lambda: r.crash_run(comp, h, k, when, res), r)
    finally:
        fsx.uninstall()
        fsx.clear()
        shutil.rmtree(d, ignore_errors=True)
    return getattr(r, "snap_after_crash", None)


def real_kill_validation(fx, ops, plans, tr):
    """A sample of the crash points is executed with a child process that REALLY dies at the operation; the files it leaves
    must be what the in-process emulation leaves under one of its resolutions, and the recovery is judged like any other run."""
    rnd = random.Random(seed() + 1313)
    cand = {}
    for p in plans:
        comp, h = p[0], p[1]
        if comp == "client" and h not in ("genkey", "encrypt"):
            continue            # create does not return its sid; the echo handlers need a live connection inside the child
        cand.setdefault((comp, h, p[2], p[3]), []).append(p)
    keys = sorted(cand)
    n = 8 if tr == "quick" else len(keys)
    keys = keys if n >= len(keys) else rnd.sample(keys, n)
    jobs = [(i, key) for i, key in enumerate(keys)]
    res = pmap(lambda a: execute_real(fx, a[1], ops[(a[1][0], a[1][1])][0], a[0]), jobs, nproc=8)
    emu = pmap(lambda a: [execute_snap(fx, p, a[0] * 10 + q) for q, p in enumerate(cand[a[1]])], jobs, nproc=8)
    traces, notes = [], []
    for (i, key), (ev, rc, snap), esnaps in zip(jobs, res, emu):
        traces.append({"tid": "real%d" % i, "ev": ev, "plan": list(key) + ["real", "", ""]})
        if rc != 137:
            notes.append("child for %s exited with %r instead of dying at the operation" % (list(key), rc))
        elif snap not in esnaps:
            notes.append("real kill at %s leaves %s; the emulation leaves %s" % (list(key), snap, esnaps))
    return traces, notes


def main(argv_tier=None, replay_path=None):
    t0 = time.time()
    tr = tier(argv_tier)
    fx = fixtures()
    if replay_path:
        import json
        with open(replay_path) as fh:
            rp = json.load(fh)
        ev = execute(fx, tuple(rp["plan"]), 0)
        verdicts, _ = validate_traces("Trace_CrashRecovery", [{"tid": "replay", "ev": ev}])
        for e in ev:
            print(e)
        print(verdicts)
        return 0 if verdicts["replay"]["ok"] else 1

    import c13_model
    ops = dry_ops(fx)
    programs = {"%s.%s" % k: program_of(v[1]) for k, v in ops.items()}
    model = c13_model.check(tr, programs)

    plans = plans_from(ops)
    schemes_extra = []
    evs = pmap(lambda a: execute(fx, a[1], a[0]), list(enumerate(plans)), nproc=12)
    traces = [{"tid": "p%d" % i, "ev": ev, "plan": list(p)} for (i, p), ev in zip(enumerate(plans), evs)]
    if any(t["ev"] and t["ev"][-1].get("e") == "nocrash" for t in traces):
        raise MachineryError("a crash plan did not reach its operation (dry run not representative)")
    rtraces, fidelity = real_kill_validation(fx, ops, plans, tr)
    for nline in fidelity[:10]:
        print("FIDELITY-NOTE property=C13 %s" % nline)
    traces += rtraces
    verdicts, agg = validate_traces("Trace_CrashRecovery", [{"tid": t["tid"], "ev": t["ev"]} for t in traces], shards=4)
    rej = []
    for t in traces:
        v = verdicts[t["tid"]]
        if not v["ok"]:
            rej.append({"key": "%s.%s:%s" % (t["plan"][0], t["plan"][1], v["clause"]), "trace": t, "verdict": v})
    viol, seen = classify(PROP, rej)
    vio_out = []
    for x in viol:
        p = ""
        if len(vio_out) < 20:
            p = write_replay(PROP, x["trace"]["tid"], {"plan": x["trace"]["plan"], "events": x["trace"]["ev"],
                                                       "verdict": x["verdict"], "seed": seed()})
        vio_out.append(("crash %s in %s.%s at op %d (%s %s, leaves %s): clause=%s step=%d" % (
            x["trace"]["plan"][3], x["trace"]["plan"][0], x["trace"]["plan"][1], x["trace"]["plan"][2],
            x["trace"]["plan"][5] if len(x["trace"]["plan"]) > 5 else "", x["trace"]["plan"][6] if len(x["trace"]["plan"]) > 6 else "",
            x["trace"]["plan"][4], x["verdict"]["clause"],
            x["verdict"]["step"]), p))
    for d in model.get("drift", []):
        print("DRIFT property=C13 %s" % d)
    cov = {
        "states": model["distinct"], "transitions": model["generated"], "model_runs": model["runs"],
        "traces_validated_against_impl": len(traces), "trace_validation_states": agg["distinct"],
        "evaluations": len(traces),
        "distinct_nontrivial": len({tuple(t["plan"][:5]) for t in traces if any(e["e"] == "crash" for e in t["ev"])}),
        "rule": "one execution per (component, handler, FS mutation k, before/after, resolution of the file open for writing); "
                "crash points enumerated from the recorded FS-operation log of each persisting handler (server: config, upload; "
                "client: create, genkey, encrypt, upload-config echo, upload-index echo); non-trivial = the crash was reached",
        "exhaustive": True,
        "real_kill_runs": len(rtraces), "real_kill_fidelity_notes": fidelity[:20],
        "handler_programs": programs,
        "drift": model.get("drift", []),
        "samples": [{"plan": t["plan"], "events": t["ev"]} for t in traces[len(traces) // 2:len(traces) // 2 + 2]],
        "model": "Layer B spec/fe/Persist.tla (Usable, Reaches under fairness); Layer A Trace_CrashRecovery over ClientSM",
    }
    return finish(PROP, tr, t0, cov, vio_out, seen,
                  assumptions=["process death is emulated in-process: a BaseException at the chosen FS operation, all later mutations of the "
                               "dead component refused, files open for writing left empty / half / complete",
                               "Python's buffered writers are modelled as reaching the disk at close (true for files below the buffer size; "
                               "the 'partial' and 'full' resolutions cover larger files)",
                               "real client and server in one process over a loopback websocket; server cleanup delay shortened to one yield"])
