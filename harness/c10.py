"""C10 — server keeps each service in a forward-only, write-once state machine.

1. TLC explores MC_ServerSM (Layer A with a history variable) and emits every
   request history up to depth D; ForwardOnly / WriteOnce / Consistent are checked.
2. Every history is replayed through the real frontend.server.connector.handler on
   the fake websocket (plus -simulate style random longer histories); after every
   event the durable state is projected and one trace record is written.
3. TLC validates every trace against Trace_ServerSM.
"""
import asyncio
import copy
import hashlib
import os
import random
import sys
import time

from common import (REPO, pmap, MachineryError, classify, finish, parse_printed, run_tlc, seed, subdir, tier,
                    tla_value, validate_traces, write_replay)
import fe_server as fs

PROP = "C10"
SYMS = ["cfg1", "cfg2", "up1", "up2", "search", "reconnL", "reconnE", "foreign", "unknown"]
SYMS_ALL = SYMS + ["cfgbad", "upbad"]        # + uploads whose content cannot be decoded / stored


def fixtures():
    fs.setup_env(REPO)
    import schemes
    from schemes.CJJ14.PiBas.config import DEFAULT_CONFIG
    rnd = random.Random(seed() + 10)
    c1 = dict(DEFAULT_CONFIG, salt="aa" * 32)
    c2 = dict(DEFAULT_CONFIG, salt="bb" * 32)
    ml = schemes.load_sse_module("CJJ14.PiBas")
    scheme = ml.SSEScheme(c1)
    key = scheme.KeyGen()

    def ident():
        return bytes(rnd.randrange(1, 256) for _ in range(8))
    w = b"keyword1"
    db1 = {w: [ident() for _ in range(3)], b"other": [ident()]}
    db2 = {w: [ident() for _ in range(2)], b"zzz": [ident(), ident()]}
    e1 = scheme.EDBSetup(key, db1).serialize()
    e2 = scheme.EDBSetup(key, db2).serialize()
    tok = scheme.TokenGen(key, w).serialize()
    return dict(c1=c1, c2=c2, e1=e1, e2=e2, tok=tok, r1=db1[w], r2=db2[w], ml=ml, cfgobj=scheme.config)


class Replayer:
    def __init__(self, fx, datadir, loopback=False, fvar=0):
        self.fx = fx
        self.fvar = fvar            # which foreign-sid variants this run uses (the case number: same for fake and loopback)
        self.loopback = loopback
        if loopback:
            import fe_loop
            self.world = fe_loop.LoopWorld(REPO, datadir)
        else:
            self.world = fs.ServerWorld(REPO, datadir)
        self.sid = hashlib.sha256(os.path.basename(datadir).encode()).hexdigest()
        self.ws = None
        self.ev = []
        self.nconn = 0

    async def settle(self):
        if self.loopback:
            await self.world.settle()
        else:
            await fs.settle()

    def proj(self):
        p = self.world.project(self.sid, (self.fx["c1"], self.fx["c2"]), (self.fx["e1"], self.fx["e2"]))
        return {"st": p["st"], "cfg": p["cfg"], "idx": p["idx"]}

    async def connect(self):
        self.nconn += 1
        self.ws = self.world.open(self.sid, "c%d" % self.nconn)
        await self.settle()
        msgs = fs.decode_server_msgs(self.ws.take_outbox())
        inits = [m for m in msgs if m["type"] == "init"]
        # (should the server report its state more than once before the first request, the last report counts)
        rep = inits[-1]["state"] if inits and all(m.get("ok") for m in inits) and isinstance(inits[-1].get("state"), int) else -1
        self.ev.append({"e": "connect", "rep": rep, "d": self.proj()})

    async def ensure(self):
        if self.ws is None or self.ws.closed:
            # the cleanup of the previous connection has to be allowed to finish first or the new
            # connection waits for ever behind the gated delay
            await self.drain_timers()
            await self.connect()

    async def drain_timers(self):
        await self.settle()
        while self.world.proxy.fire():
            await self.settle()

    def classify_replies(self, msgs, typ):
        rs = [m for m in msgs if m["type"] == typ]
        others = [m for m in msgs if m["type"] not in (typ, "control")]
        if others or len(rs) > 1:
            return "garbled", None
        if not rs:
            return self.no_reply(), None
        return ("ok" if rs[0].get("ok") else "refused"), rs[0]

    def no_reply(self):
        """No reply: the real stack refuses by failing the handler, which closes the connection with 1011
        before the {"ok": False} message can be written (verified on a real loopback socket)."""
        ws = self.ws
        if ws.closed and ws.closed_by == "server" and not ws.close_ok:
            return "refused"
        return "none"

    async def request(self, sym):
        fx, sid = self.fx, self.sid
        await self.ensure()
        if sym in ("cfg1", "cfg2"):
            import pickle
            c = 1 if sym == "cfg1" else 2
            self.ws.peer_send(fs.msg(sid, "config", pickle.dumps(fx["c%d" % c])))
            await self.settle()
            out, _ = self.classify_replies(fs.decode_server_msgs(self.ws.take_outbox()), "config")
            self.ev.append({"e": "config", "c": c, "out": out, "d": self.proj()})
        elif sym in ("up1", "up2"):
            x = 1 if sym == "up1" else 2
            self.ws.peer_send(fs.msg(sid, "upload_edb", fx["e%d" % x]))
            await self.settle()
            out, _ = self.classify_replies(fs.decode_server_msgs(self.ws.take_outbox()), "upload_edb")
            self.ev.append({"e": "upload", "x": x, "out": out, "d": self.proj()})
        elif sym == "search":
            dig = hashlib.sha256(fx["tok"]).digest()
            self.ws.peer_send(fs.msg(sid, "token", fx["tok"], token_digest=dig))
            await self.settle()
            out, res = self.search_outcome(fs.decode_server_msgs(self.ws.take_outbox()), dig)
            self.ev.append({"e": "search", "out": out, "res": res, "d": self.proj()})
        elif sym == "foreign":
            import pickle
            # a sid that is not this connection's: unrelated, or adversarially close to it (same display prefix, one character
            # off at the end, a proper prefix, an extension, another case, empty), carrying any of the three request types
            self.nforeign = getattr(self, "nforeign", self.fvar * 5) + 1
            flip = "0" if sid[-1] != "0" else "1"
            cands = ["f" * 64, sid[:8] + ("0" if sid[8] != "0" else "1") * 56, sid[:-1] + flip, sid[:32], sid + "0",
                     sid.upper() if sid.upper() != sid else sid[::-1], "", sid[:8]]
            fsid = cands[self.nforeign % len(cands)]
            if fsid == sid:
                fsid = "f" * 64
            kind = (self.nforeign // len(cands)) % 3
            if kind == 0:
                self.ws.peer_send(fs.msg(fsid, "config", pickle.dumps(fx["c2"])))
            elif kind == 1:
                self.ws.peer_send(fs.msg(fsid, "upload_edb", fx["e2"]))
            else:
                self.ws.peer_send(fs.msg(fsid, "token", fx["tok"], token_digest=hashlib.sha256(fx["tok"]).digest()))
            await self.settle()
            msgs = [m for m in fs.decode_server_msgs(self.ws.take_outbox()) if m["type"] != "control"]
            out = self.no_reply() if not msgs else ("refused" if all(m.get("ok") is False for m in msgs) else "garbled")
            self.ev.append({"e": "foreign", "out": out, "d": self.proj(), "fv": self.nforeign % len(cands), "kind": kind})
        elif sym == "unknown":
            self.ws.peer_send(fs.msg(sid, "delete", b""))
            await self.settle()
            msgs = [m for m in fs.decode_server_msgs(self.ws.take_outbox()) if m["type"] != "control"]
            out = self.no_reply() if not msgs else ("refused" if all(m.get("ok") is False for m in msgs) else "garbled")
            self.ev.append({"e": "unknown", "out": out, "d": self.proj()})
        elif sym in ("cfgbad", "upbad"):
            # a configuration that does not unpickle / an index that is not a byte string (cannot be written to the file)
            typ = "config" if sym == "cfgbad" else "upload_edb"
            if sym == "cfgbad":
                import pickle
                # bytes that do not unpickle; a configuration that unpickles but cannot be stored as JSON (a value of raw
                # bytes).  (Not used: content that unpickles to a LIST - the server stores it, moves to state 1 and every later
                # connection fails in the constructor; a real client never sends it and the property's alphabet does not
                # contain it: recorded as an observation in DESIGN.md 11.6, not judged.)
                self.nbad = getattr(self, "nbad", self.fvar) + 1
                bad = [b"\x00not a pickle", pickle.dumps(dict(fx["c1"], salt=b"\xff\xfe raw bytes"))]
                content = bad[self.nbad % len(bad)]
            else:
                content = None
            self.ws.peer_send(fs.msg(sid, typ, content))
            await self.settle()
            msgs = [m for m in fs.decode_server_msgs(self.ws.take_outbox()) if m["type"] != "control"]
            out = self.no_reply() if not msgs else ("refused" if all(m.get("ok") is False for m in msgs) else "garbled")
            self.ev.append({"e": "malformed", "what": sym, "out": out, "d": self.proj()})
        elif sym == "reconnL":      # close, cleanup delay elapses, then the next connection opens
            self.ws.peer_close()
            await self.drain_timers()
            self.ev.append({"e": "close", "d": self.proj()})
            await self.connect()
        elif sym == "reconnE":      # close and re-open at once: the new connection opens while the cleanup is pending
            self.ws.peer_close()
            await self.settle()
            self.ev.append({"e": "close", "d": self.proj()})
            self.nconn += 1
            self.ws = self.world.open(self.sid, "c%d" % self.nconn)
            await self.settle()
            await self.drain_timers()
            msgs = fs.decode_server_msgs(self.ws.take_outbox())
            inits = [m for m in msgs if m["type"] == "init"]
            rep = inits[-1]["state"] if inits and all(m.get("ok") for m in inits) and isinstance(inits[-1].get("state"), int) else -1
            self.ev.append({"e": "connect", "rep": rep, "d": self.proj()})
        else:
            raise MachineryError("unknown symbol " + sym)

    def search_outcome(self, msgs, dig):
        rs = [m for m in msgs if m["type"] == "result"]
        others = [m for m in msgs if m["type"] not in ("result", "control")]
        if others or len(rs) > 1:
            return "garbled", 0
        if not rs:
            return self.no_reply(), 0
        m = rs[0]
        if m.get("ok") is False:
            return "refused", 0
        try:
            r = self.fx["ml"].SSEResult.deserialize(m["content"], self.fx["cfgobj"]).get_result_list()
        except Exception:
            return "garbled", 0
        if m.get("token_digest") != dig:
            return "garbled", 0
        if r == self.fx["r1"]:
            return "result", 1
        if r == self.fx["r2"]:
            return "result", 2
        return "result", 9

    async def probe(self):
        """server restart + fresh connection: what is reported, and (when ready) what is searched."""
        if self.ws is not None and not self.ws.closed:
            self.ws.peer_close()
        await self.drain_timers()
        await self.world.kill()
        if self.loopback:
            await self.world.restart_async()
        else:
            self.world.restart()
        self.ev.append({"e": "restart", "d": self.proj()})
        await self.connect()
        if self.ev[-1]["rep"] == 2:
            await self.request("search")

    async def neighbour(self):
        """Another service on the same server whose sid shares the 8-character display prefix with ours: configured with c2,
        index e2, searched once, connection closed - all before our history starts.  It is environment: nothing of it is
        judged, and nothing of it may show in our service."""
        import pickle
        fx = self.fx
        sid2 = self.sid[:8] + hashlib.sha256(self.sid.encode()).hexdigest()[:56]
        ws = self.world.open(sid2, "n0")
        await self.settle()
        ws.take_outbox()
        for typ, content, extra in (("config", pickle.dumps(fx["c2"]), {}), ("upload_edb", fx["e2"], {}),
                                    ("token", fx["tok"], {"token_digest": hashlib.sha256(fx["tok"]).digest()})):
            ws.peer_send(fs.msg(sid2, typ, content, **extra))
            await self.settle()
            ws.take_outbox()
        ws.peer_close()
        await self.drain_timers()

    async def run(self, hist):
        if self.loopback:
            await self.world.start()
        if self.fvar % 4 == 1:
            await self.neighbour()
        for s in hist:
            await self.request(s)
        await self.probe()
        await self.world.shutdown()
        if fs.FAKE_GAPS or fs.REAL_TIMERS:
            self.ev.append({"e": "fakegap", "what": (fs.FAKE_GAPS or fs.REAL_TIMERS)[-1], "d": {"st": 0, "cfg": 0, "idx": 0}})
        return self.ev


def replay(fx, hist, k, loopback=False):
    d = os.path.join(subdir("c10-data"), "%s%d" % ("L" if loopback else "h", k))
    rp = Replayer(fx, d, loopback, fvar=k)
    loop = asyncio.new_event_loop()
    loop.set_exception_handler(lambda l, c: None)
    try:
        ev = loop.run_until_complete(asyncio.wait_for(rp.run(hist), 600))
    except asyncio.TimeoutError:
        ev = rp.ev + [{"e": "noreturn", "d": {"st": 0, "cfg": 0, "idx": 0}}]
    finally:
        loop.close()
    import shutil
    shutil.rmtree(d, ignore_errors=True)
    return ev


def main(argv_tier=None, replay_path=None):
    t0 = time.time()
    tr = tier(argv_tier)
    fx = fixtures()
    if replay_path:
        import json
        with open(replay_path) as fh:
            rp = json.load(fh)
        ev = replay(fx, rp["history"], int(rp.get("k") or 0))
        verdicts, _ = validate_traces("Trace_ServerSM", [{"tid": "replay", "ev": ev}], consts="CONSTANTS Cfgs = {1,2}\nIdxs = {1,2}\n")
        print(json.dumps(ev, indent=1))
        print(verdicts)
        return 0 if verdicts["replay"]["ok"] else 1

    D = 4 if tr == "quick" else 5
    def gen(alpha, depth, name):
        cfg = ("CONSTANTS Cfgs = {1,2}\nIdxs = {1,2}\nD = %d\nAlphabet = {%s}\nSPECIFICATION MCSpec\nINVARIANT Emit\nINVARIANT TypeOK\n"
               "INVARIANT Consistent\nPROPERTY ForwardOnly\nPROPERTY CfgWriteOnce\nPROPERTY IdxWriteOnce\nCHECK_DEADLOCK FALSE\n"
               % (depth, ", ".join('"%s"' % a for a in alpha)))
        rr = run_tlc("MC_ServerSM", cfg, workers=8, name=name)
        hs = sorted({tuple(tla_value(x)[1]) for x in parse_printed(rr.out, "H")})
        if len(hs) != len(alpha) ** depth:
            raise MachineryError("expected %d histories from TLC, got %d" % (len(alpha) ** depth, len(hs)))
        return rr, hs
    r, hists = gen(SYMS, D, "mc")
    # the alphabet with malformed uploads, one level less deep; only the histories that contain one are new
    r2, h2 = gen(SYMS_ALL, D - 1, "mcbad")
    nbad = 0
    for h in h2:
        if "cfgbad" in h or "upbad" in h:
            hists.append(h)
            nbad += 1
    # longer random histories (the model's alphabet, depth 6..12)
    rnd = random.Random(seed())
    nrand = 300 if tr == "quick" else 3000
    for _ in range(nrand):
        n = rnd.randint(D + 1, 12)
        hists.append(tuple(rnd.choice(SYMS_ALL if _ % 3 == 0 else SYMS) for _k in range(n)))

    evs = pmap(lambda a: replay(fx, list(a[1]), a[0]), list(enumerate(hists)))
    traces = [{"tid": "h%d" % k, "ev": ev, "history": list(h)} for (k, h), ev in zip(enumerate(hists), evs)]
    verdicts, agg = validate_traces("Trace_ServerSM", [{"tid": t["tid"], "ev": t["ev"]} for t in traces],
                                    consts="CONSTANTS Cfgs = {1,2}\nIdxs = {1,2}\n")
    # ---- is the fake websocket a faithful stand-in?  the same histories over real loopback sockets
    nloop = 16 if tr == "quick" else 200
    sample = random.Random(seed() + 77).sample(range(len(traces)), min(nloop, len(traces)))
    lev = pmap(lambda k: replay(fx, traces[k]["history"], k, loopback=True), sample, nproc=8)
    mism = [{"history": traces[k]["history"], "fake": traces[k]["ev"], "loopback": ev} for k, ev in zip(sample, lev) if ev != traces[k]["ev"]]
    for m in mism[:5]:
        print("FIDELITY-NOTE property=C10 fake websocket and loopback socket disagree on history %s" % ",".join(m["history"]))
    lverd, _ = validate_traces("Trace_ServerSM", [{"tid": "L%d" % k, "ev": ev} for k, ev in zip(sample, lev)],
                               consts="CONSTANTS Cfgs = {1,2}\nIdxs = {1,2}\n", name="loop")
    for k, ev in zip(sample, lev):
        if not lverd["L%d" % k]["ok"]:
            traces.append({"tid": "L%d" % k, "ev": ev, "history": traces[k]["history"]})
            verdicts["L%d" % k] = lverd["L%d" % k]
    gaps = [e["what"] for t in traces for e in t["ev"] if e.get("e") == "fakegap"]
    if gaps:
        raise MachineryError("a harness seam is ineffective on this tree (fake websocket API gap or a timer on the wall clock): %s" % gaps[0])
    rej = []
    for t in traces:
        v = verdicts[t["tid"]]
        if not v["ok"]:
            rej.append({"key": v["clause"], "trace": t, "verdict": v})
    viol, seen = classify(PROP, rej)
    vio_out = []
    for x in viol[:20]:
        p = write_replay(PROP, x["trace"]["tid"], {"history": x["trace"]["history"], "events": x["trace"]["ev"],
                                                   "k": int(x["trace"]["tid"][1:]), "verdict": x["verdict"], "seed": seed()})
        vio_out.append(("step %d %s history=%s" % (x["verdict"]["step"], x["verdict"]["clause"],
                                                    ",".join(x["trace"]["history"])), p))
    vio_out += [("", "")] * max(0, len(viol) - 20)
    nontrivial = len({tuple(t["history"]) for t in traces
                      if any(e.get("out") == "ok" for e in t["ev"])})
    from common import apalache_inductive, tlaps_prove
    apa = apalache_inductive("APA_ServerSM", "SMInit", "SMNext", "IndInit", "IndInv")
    tlaps = tlaps_prove("ServerSM_proofs")
    cov = {
        "apalache_inductive_invariant": apa,
        "tlaps_proof": tlaps,
        "states": r.distinct, "transitions": r.generated,
        "traces_validated_against_impl": len(traces),
        "trace_validation_states": agg["distinct"],
        "evaluations": len(traces), "distinct_nontrivial": nontrivial,
        "rule": "every history over the 9-symbol alphabet up to depth %d as emitted by TLC from MC_ServerSM, every history of one level less over the 11-symbol alphabet that contains a malformed upload (config that does not unpickle, index that is not a byte string), plus %d random "
                "histories of length %d..12; non-trivial = at least one accepted request" % (D, nrand, D + 1),
        "exhaustive": True,
        "loopback_histories": len(sample), "loopback_disagreements": len(mism), "loopback_disagreement_samples": mism[:3],
        "samples": [{"history": t["history"], "events": t["ev"]} for t in traces[len(traces) // 3:len(traces) // 3 + 2]],
        "model": "spec/fe/ServerSM.tla via MC_ServerSM (D=%d); trace spec Trace_ServerSM" % D,
    }
    return finish(PROP, tr, t0, cov, [v for v in vio_out if v[1]], seen,
                  assumptions=["fake websocket implements the subset of the websockets legacy protocol the server uses",
                               "cleanup delay asyncio.sleep(1) is turned into a gate by a module-attribute proxy",
                               "index identity decided by comparing the search result with the two databases' posting lists"])
