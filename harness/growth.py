"""Growth beyond the listed properties: specifications of behaviour no listed property quantifies over, each
model-checked and bound to the code by one or more recorded executions. Results are reported under
coverage.growth of the closest property's evidence and as OBSERVATION lines; they never change an exit code.
"""
import asyncio
import copy
import os
import shutil

from common import REPO, MachineryError, run_tlc, subdir, validate_traces
import fe_world
import sse_common as sc


def routing(fx):
    """ClientRouting.tla: several searches in flight on ONE client object."""
    out = {"spec": "spec/fe/ClientRouting.tla", "model": [], "observations": []}
    for routing_, spec, expect in (("type", "Spec", "RightResult"), ("type", "SeqSpec", None), ("digest", "Spec", None)):
        cfg = ('CONSTANTS Searches = {1,2,3}\nKw <- KwDef\nRouting = "%s"\nSPECIFICATION %s\nINVARIANT RightResult\nCHECK_DEADLOCK FALSE\n'
               % (routing_, spec))
        r = run_tlc("MC_ClientRouting", cfg, workers=2, allow_violation=True, heap="1g", name="routing")
        out["model"].append({"routing": routing_, "spec": spec, "distinct": r.distinct, "violated": r.violated,
                             "as_expected": r.violated == expect})
    # one real client object, three searches started together (keywords a, b, a)
    s = "CJJ14.PiBas"
    d = os.path.join(subdir("growth"), "routing")
    w = fe_world.World(REPO, d, echo_cap=10)
    ev = []

    async def go():
        await w.start_server()
        r = await w.client_op("create", "", copy.deepcopy(fx[s]["cfg"]))
        sid = r["sid"]
        for op, arg in (("genkey", None), ("encrypt", copy.deepcopy(fx[s]["db"])), ("upconfig", None), ("upindex", None)):
            await w.client_op(op, sid, arg)
        svc = w.new_service(sid)
        kws = list(fx[s]["db"])[:2]
        ask = {1: kws[0], 2: kws[1], 3: kws[0]}
        names = {kws[0]: "a", kws[1]: "b"}

        def cb(i):
            def f(fut):
                try:
                    res = svc.sse_module_loader.SSEResult.deserialize(fut.result(), svc.config_object).get_result_list()
                except BaseException:
                    return
                which = [names[k] for k in kws if list(res) == fx[s]["db"][k]]
                ev.append({"e": "deliver", "i": i, "w": which[0] if which else "?"})
            return f

        async def one(i):
            ev.append({"e": "start", "i": i})
            try:
                await svc.handle_keyword_search(ask[i], wait=True, wait_callback_func=cb(i))
            except Exception:
                pass
        await svc.load_websocket()
        await asyncio.gather(one(1), one(2), one(3))
        try:
            await svc.close_service()
        except Exception:
            pass
        await w.shutdown()
    loop = asyncio.new_event_loop()
    loop.set_exception_handler(lambda l, c: None)
    try:
        loop.run_until_complete(asyncio.wait_for(go(), 120))
    except Exception as ex:
        out["observations"].append("routing replay did not complete: %r" % (ex,))
    finally:
        loop.close()
        shutil.rmtree(d, ignore_errors=True)
    starts = [e for e in ev if e["e"] == "start"]
    ev = starts + [e for e in ev if e["e"] == "deliver"]
    v, _ = validate_traces("Trace_ClientRouting", [{"tid": "routing", "ev": ev}], name="routing",
                           consts='CONSTANTS Searches = {1,2,3}\nKw <- KwDef\nRouting = "type"\n', cfg_extra="")
    out["trace"] = ev
    out["verdict"] = v["routing"]
    if not v["routing"]["ok"]:
        out["observations"].append("DRIFT: the recorded run is not a behaviour of ClientRouting with Routing = \"type\" (event %s)" % v["routing"]["clause"])
    elif v["routing"]["clause"] == "RightResult:VIOLATED":
        out["observations"].append("several searches in flight on one client object: every waiting caller receives the FIRST result "
                                   "(futures are registered by message type, the per-digest registry is unused); the documented one-search-per-command "
                                   "workflow is not affected (SeqSpec satisfies RightResult)")
    return out


def alias(tier_):
    """AliasSM.tla: the alias registry of service_name_handler.py (write-once map that survives restarts)."""
    import json
    import pathlib
    from common import parse_printed, tla_value, pmap
    import fe_server as fs
    fs.setup_env(REPO)
    D = 4 if tier_ == "quick" else 5
    cfg = ('CONSTANTS Names = {"n1","n2"}\nSids = {"s1","s2"}\nD = %d\nSPECIFICATION MCSpec\nINVARIANT Emit\nPROPERTY WriteOnce\nCHECK_DEADLOCK FALSE\n' % D)
    r = run_tlc("MC_AliasSM", cfg, workers=4, heap="1g", name="alias")
    hists = sorted({repr(tla_value(x)[1]) for x in parse_printed(r.out, "H")})
    hists = [eval(h) for h in hists]
    base = subdir("growth-alias")

    def replay(a):
        k, h = a
        import fe_world
        d = pathlib.Path(base) / ("h%d" % k) / "client"
        snh = fe_world.fresh_alias_registry(d)
        ev = []
        for step in h:
            if step[0] == "record":
                try:
                    snh.record_sname_id_pair(step[1], step[2])
                    out = "ok"
                except KeyError:
                    out = "refused"
                except Exception as ex:
                    out = "raised:" + type(ex).__name__
                ev.append({"e": "record", "n": step[1], "s": step[2], "out": out})
            elif step[0] == "get":
                try:
                    res = snh.get_service_id_by_sname(step[1])
                    out = "ok"
                except KeyError:
                    res, out = "none", "refused"
                except Exception as ex:
                    res, out = "none", "raised:" + type(ex).__name__
                ev.append({"e": "get", "n": step[1], "out": out, "res": res if isinstance(res, str) else "?"})
            else:       # a new process: whatever the module remembered is gone
                snh = fe_world.fresh_alias_registry(d)
                ev.append({"e": "restart", "out": "ok"})
        shutil.rmtree(d.parent, ignore_errors=True)
        return ev
    evs = pmap(replay, list(enumerate(hists)), nproc=8)
    traces = [{"tid": "a%d" % k, "ev": ev} for k, ev in enumerate(evs)]
    v, agg = validate_traces("Trace_AliasSM", traces, consts='CONSTANTS Names = {"n1","n2"}\nSids = {"s1","s2"}\n', name="alias", shards=4)
    bad = [(hists[int(t[1:])], x) for t, x in v.items() if not x["ok"]]
    out = {"spec": "spec/fe/AliasSM.tla", "model_states": r.distinct, "histories": len(hists), "traces_validated": len(traces),
           "rejected": len(bad), "observations": []}
    for h, x in bad[:5]:
        out["observations"].append("alias registry deviates from the write-once map: step %d %s in history %s" % (x["step"], x["clause"], h))
    return out


def _run_lost(a):
    """one history of client commands on the real client / server; symbols ending in "!" lose the server's echo"""
    import c11
    k, h, fx = a
    d = os.path.join(subdir("growth"), "lost%d" % k)
    run = c11.Run({"cfg": fx["cfg"], "db": fx["db"], "bad": [fx["cfg"]]}, d)
    run.w.cproxy.cap = 0.4            # a lost echo is noticed after 0.4 s instead of 60 s
    import frontend.server.services.service as sservice
    real_send = sservice.send_message
    drop = {"on": False}
    err = ""

    def send(ws, sid, typ, content, **kw):
        if drop["on"] and typ in ("config", "upload_edb"):
            drop["on"] = False
            return asyncio.get_running_loop().create_future()      # never sent
        return real_send(ws, sid, typ, content, **kw)
    sservice.send_message = send

    async def go():
        await run.w.start_server()
        for sym in h:
            if sym == "restart":
                before = run.snapshot()
                await run.w.restart_server()
                run.ev.append({"op": "restart", "out": "ok", "correct": False, "raw": "", "o": run.observe(before)})
                continue
            drop["on"] = sym.endswith("!")
            await run.step(sym.rstrip("!"))
            drop["on"] = False
            e = run.ev[-1]
            if sym.endswith("!") and e["raw"].startswith("raised:TimeoutError"):
                e["out"] = "noecho"
        await run.w.shutdown()
    loop = asyncio.new_event_loop()
    loop.set_exception_handler(lambda l, c: None)
    try:
        loop.run_until_complete(asyncio.wait_for(go(), 180))
    except Exception as ex:
        err = repr(ex)
    finally:
        loop.close()
        sservice.send_message = real_send
        shutil.rmtree(d, ignore_errors=True)
    return {"ev": run.ev, "err": err}


def lost_echo(fx, tier_="quick"):
    """ClientImpl.tla: the client object as commands.py uses it, incl. upload echoes that never arrive (the persisted flags
    lag behind the server until the next connecting command re-synchronises them) and server restarts in between.
    Binding: four hand-written scenarios + the histories with at least one lost echo that TLC emits from MC_ClientImpl
    (quick: a seeded sample of depth 5; thorough: all of depth 5 and a sample of depth 6)."""
    import random
    from common import parse_printed, tla_value, pmap, seed
    out = {"spec": "spec/fe/ClientImpl.tla", "observations": []}
    K = "CONSTANTS MaxLost = 2\nPersistSynced = TRUE\n"
    r = run_tlc("ClientImpl", K + "SPECIFICATION Spec\nINVARIANT DiskNotAhead\nINVARIANT LagOnlyAfterLoss\nINVARIANT Searchable\n"
                              "PROPERTY RefinesClientSM\nCHECK_DEADLOCK FALSE\n", workers=2, heap="1g", name="clientimpl")
    out["model"] = {"distinct": r.distinct, "generated": r.generated, "checked": ["DiskNotAhead", "LagOnlyAfterLoss", "Searchable", "RefinesClientSM"]}
    # the documented workflow as a goal-directed driver: it ends in a searchable service whatever echoes are lost ...
    rd = run_tlc("ClientImpl", K + "SPECIFICATION DriverSpec\nINVARIANT DiskNotAhead\nINVARIANT Searchable\nPROPERTY Recoverable\nPROPERTY DriverProgress\n",
                 workers=1, heap="1g", name="clientimpl-driver")
    # ... and would not, if close_service did not store the connect-time synchronised flags after a refusal (sensitivity twin)
    rt = run_tlc("ClientImpl", "CONSTANTS MaxLost = 2\nPersistSynced = FALSE\nSPECIFICATION DriverSpec\nPROPERTY Recoverable\n",
                 workers=1, heap="1g", name="clientimpl-twin", allow_violation=True)
    if rt.violated != "Recoverable":
        raise MachineryError("ClientImpl: the twin without persist-on-refusal does not lose Recoverable")
    from common import tlaps_prove
    out["model"]["tlaps_proof"] = tlaps_prove("ClientImpl_proofs")      # safety clauses + refinement of ClientSM, any MaxLost
    out["model"]["driver"] = {"distinct": rd.distinct, "checked": ["Recoverable (liveness, WF on the driver)", "DriverProgress", "DiskNotAhead", "Searchable"],
                              "twin_without_persist_on_refusal": "Recoverable violated, as it must be"}
    scen = [["create", "genkey", "encrypt", "upconfig!", "upconfig", "upindex", "search"],
            ["create", "genkey", "encrypt", "upconfig", "upindex!", "search", "upindex"],
            ["create", "genkey", "upconfig!", "encrypt", "upindex!", "search", "search"],
            ["create", "genkey", "encrypt", "upconfig", "upindex", "search"],
            ["create", "genkey", "encrypt", "upconfig!", "restart", "upindex", "restart", "search"]]
    g = run_tlc("MC_ClientImpl", K + "D = 5\nSPECIFICATION DrvSpec\nINVARIANT DrvEmit\nINVARIANT DrvEndsInGoal\nCHECK_DEADLOCK FALSE\n", workers=1, heap="1g",
                name="mcclientimpl-drv")
    drv = sorted({tuple(tla_value(x)[1]) for x in parse_printed(g.out, "H")})
    if len(drv) < 4:
        raise MachineryError("MC_ClientImpl: driver histories missing")
    out["model"]["driver"]["histories"] = [list(h) for h in drv]
    scen += [list(h) for h in drv]
    nscen = len(scen)
    rnd = random.Random(seed() * 7919 + 11)
    gen = {}
    for D, take in ((5, 160 if tier_ == "quick" else None), (6, 0 if tier_ == "quick" else 900)):
        if take == 0:
            continue
        g = run_tlc("MC_ClientImpl", K + "D = %d\nSPECIFICATION MCSpec\nINVARIANT Emit\nCHECK_DEADLOCK FALSE\n" % D,
                    workers=4, heap="2g", name="mcclientimpl%d" % D)
        hs = sorted({tuple(tla_value(x)[1]) for x in parse_printed(g.out, "H")})
        if not hs:
            raise MachineryError("MC_ClientImpl emitted no history at depth %d" % D)
        gen[D] = {"emitted": len(hs), "states": g.distinct}
        if take is not None and len(hs) > take:
            hs = rnd.sample(hs, take)
        gen[D]["replayed"] = len(hs)
        scen += [list(h) for h in hs]
    res = pmap(_run_lost, [(k, h, fx) for k, h in enumerate(scen)], nproc=12)
    traces = [{"tid": "lost%d" % k, "ev": x["ev"]} for k, x in enumerate(res)]
    for k, x in enumerate(res):
        if x["err"]:
            out["observations"].append("lost-echo history %s did not complete: %s" % (scen[k], x["err"]))
    v, agg = validate_traces("Trace_ClientImpl", traces, consts=K, name="clientimpl")
    out["scenarios"] = [{"history": h, "verdict": v["lost%d" % k]} for k, h in enumerate(scen[:nscen])]
    bad = [(h, v["lost%d" % k]) for k, h in enumerate(scen) if not v["lost%d" % k]["ok"]]
    out["generated_histories"] = {"by_depth": gen, "replayed": len(scen) - nscen, "accepted": len(scen) - len(bad),
                                  "with_restart": sum(1 for h in scen if "restart" in h),
                                  "lost_echoes_replayed": sum(sum(1 for s_ in h if s_.endswith("!")) for h in scen),
                                  "trace_validation_states": agg.get("distinct")}
    for h, x in bad[:8]:
        out["observations"].append("DRIFT: client run %s is not a behaviour of ClientImpl (step %d %s)" % (h, x["step"], x["clause"]))
    out["drift_count"] = len(bad)
    return out
