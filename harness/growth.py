"""Growth beyond the listed properties: specifications of behaviour no listed property quantifies over, each
model-checked and bound to the code by one or more recorded executions. Results are reported under
coverage.growth of the closest property's evidence and as OBSERVATION lines; they never change an exit code.
"""
import asyncio
import copy
import os
import shutil

from common import REPO, run_tlc, subdir, validate_traces
import fe_world
import sse_common as sc


def routing(fx):
    """ClientRouting.tla: several searches in flight on ONE client object."""
    out = {"spec": "spec/fe/ClientRouting.tla", "model": [], "observations": []}
    for routing_, spec, expect in (("type", "Spec", "RightResult"), ("type", "SeqSpec", None), ("digest", "Spec", None)):
        cfg = ('CONSTANTS Searches = {1,2,3}\nKw <- KwDef\nRouting = "%s"\nSPECIFICATION %s\nINVARIANT RightResult\nCHECK_DEADLOCK FALSE\n'
               % (routing_, spec))
        r = run_tlc("MC_ClientRouting", cfg, workers=2, allow_violation=True, heap="1g", name="routing")
        out["model"].append({"routing": routing_, "spec": spec, "distinct": r.distinct, "violated": r.violated,
                             "as_expected": r.violated == expect})
    # one real client object, three searches started together (keywords a, b, a)
    s = "CJJ14.PiBas"
    d = os.path.join(subdir("growth"), "routing")
    w = fe_world.World(REPO, d, echo_cap=10)
    ev = []

    async def go():
        await w.start_server()
        r = await w.client_op("create", "", copy.deepcopy(fx[s]["cfg"]))
        sid = r["sid"]
        for op, arg in (("genkey", None), ("encrypt", copy.deepcopy(fx[s]["db"])), ("upconfig", None), ("upindex", None)):
            await w.client_op(op, sid, arg)
        svc = w.new_service(sid)
        kws = list(fx[s]["db"])[:2]
        ask = {1: kws[0], 2: kws[1], 3: kws[0]}
        names = {kws[0]: "a", kws[1]: "b"}

        def cb(i):
            def f(fut):
                try:
                    res = svc.sse_module_loader.SSEResult.deserialize(fut.result(), svc.config_object).get_result_list()
                except BaseException:
                    return
                which = [names[k] for k in kws if list(res) == fx[s]["db"][k]]
                ev.append({"e": "deliver", "i": i, "w": which[0] if which else "?"})
            return f

        async def one(i):
            ev.append({"e": "start", "i": i})
            try:
                await svc.handle_keyword_search(ask[i], wait=True, wait_callback_func=cb(i))
            except Exception:
                pass
        await svc.load_websocket()
        await asyncio.gather(one(1), one(2), one(3))
        try:
            await svc.close_service()
        except Exception:
            pass
        await w.shutdown()
    loop = asyncio.new_event_loop()
    loop.set_exception_handler(lambda l, c: None)
    try:
        loop.run_until_complete(asyncio.wait_for(go(), 120))
    except Exception as ex:
        out["observations"].append("routing replay did not complete: %r" % (ex,))
    finally:
        loop.close()
        shutil.rmtree(d, ignore_errors=True)
    starts = [e for e in ev if e["e"] == "start"]
    ev = starts + [e for e in ev if e["e"] == "deliver"]
    v, _ = validate_traces("Trace_ClientRouting", [{"tid": "routing", "ev": ev}], name="routing",
                           consts='CONSTANTS Searches = {1,2,3}\nKw <- KwDef\nRouting = "type"\n', cfg_extra="")
    out["trace"] = ev
    out["verdict"] = v["routing"]
    if not v["routing"]["ok"]:
        out["observations"].append("DRIFT: the recorded run is not a behaviour of ClientRouting with Routing = \"type\" (event %s)" % v["routing"]["clause"])
    elif v["routing"]["clause"] == "RightResult:VIOLATED":
        out["observations"].append("several searches in flight on one client object: every waiting caller receives the FIRST result "
                                   "(futures are registered by message type, the per-digest registry is unused); the documented one-search-per-command "
                                   "workflow is not affected (SeqSpec satisfies RightResult)")
    return out
