#!/bin/bash
# usage: tools_seedsweep.sh [-j N] [seed-id ...]   -- re-runs every seeded change under /verif/seeded against the check that
# is recorded as catching it (first word of meta.json "caught_by"), each in a scratch worktree of /repo (removed afterwards).
# Prints one line per seed: <id> <check> caught|MISSED|machinery  <first VIOLATION line>.  Exit 1 if any seed is missed.
J=3
if [ "$1" = "-j" ]; then J=$2; shift 2; fi
cd /verif
IDS="$@"; [ -z "$IDS" ] && IDS=$(ls seeded | grep -v '\.')
one() {
  id=$1
  chk=$(/venv/bin/python -c "import json,re,sys; m=json.load(open('/verif/seeded/$id/meta.json')); c=str(m.get('caught_by') or m.get('property')); print(re.match(r'C\d\d', c).group(0))")
  neut=$(/venv/bin/python -c "import json; print(json.load(open('/verif/seeded/$id/meta.json')).get('neutralised_by_fix',''))")
  if [ -n "$neut" ]; then echo "$id $chk neutralised-by-fix-$neut (the change no longer breaks the property on the repaired tree; see its meta.json)"; return; fi
  tier=$(/venv/bin/python -c "import json; print(json.load(open('/verif/seeded/$id/meta.json')).get('tier','quick'))")
  out=$(/verif/tools_seedtest.sh $chk /verif/seeded/$id/patch.diff $tier 2>&1)
  rc=$(echo "$out" | sed -n 's/^exit=//p')
  v=$(echo "$out" | grep -m1 '^VIOLATION' | cut -c1-260)
  if [ "$rc" = "1" ] && [ -n "$v" ]; then st=caught; elif [ "$rc" = "0" ]; then st=MISSED; else st="machinery(exit=$rc)"; fi
  echo "$id $chk $st $v"
}
export -f one
echo $IDS | tr ' ' '\n' | xargs -P $J -I{} bash -c 'one {}' | tee /tmp/seedsweep.$$.out
n=$(grep -c ' MISSED ' /tmp/seedsweep.$$.out); rm -f /tmp/seedsweep.$$.out
[ "$n" = "0" ]
