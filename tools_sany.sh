#!/bin/bash
# parse every specification module (flat copy, like the checks do): catches clashes between shared modules early
D=$(mktemp -d /tmp/sany.XXXXXX); cp /verif/spec/*/*.tla $D/; cp /opt/veriftools/tlapm/lib/tlapm/stdlib/TLAPS.tla $D/ 2>/dev/null; cd $D; bad=0
for f in *.tla; do
  out=$(java -Djava.io.tmpdir=$D -cp /opt/veriftools/tla/tla2tools.jar:/opt/veriftools/tla/CommunityModules-deps.jar tla2sany.SANY $f 2>&1)
  if echo "$out" | grep -qE "\*\*\* Errors|Parse Error|Fatal errors|Could not"; then echo "SANY FAIL $f"; echo "$out" | grep -E "already defined|Unknown operator|Parse Error|line [0-9]+, col" | head -4; bad=1; fi
done
rm -rf $D; [ $bad = 0 ] && echo "all modules parse"
