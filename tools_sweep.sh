#!/bin/bash
# full sweep of one tier on /repo with the default seed; refreshes every evidence file
T=${1:-quick}
cd /verif
for c in C01 C02 C03 C04 C05 C06 C07 C08 C09 C10 C11 C12 C13 C14 C15 C16 C17 C18 C19 C20; do
  /usr/bin/time -f "$c %es" ./check $c --tier $T 2>&1 | grep -E "OK \(|^VIOLATION|MACHINERY|^C[0-9]+ [0-9.]+s" | head -4
done
