#!/bin/bash
# usage: tools_seedtest.sh <PROP> <patch.diff> [tier]  -- runs the check against a scratch worktree with the patch applied
PROP=$1; PATCH=$2; TIER=${3:-quick}
WT=$(mktemp -d /tmp/seedwt.XXXXXX); rmdir $WT
git -C /repo worktree add -q --detach $WT HEAD || exit 2
( cd $WT && git apply $PATCH ) || { echo "PATCH DOES NOT APPLY"; git -C /repo worktree remove --force $WT; exit 2; }
cd /verif
SSEPY_REPO=$WT ./check $PROP --tier $TIER > /tmp/seedtest.$$.log 2>&1; rc=$?
grep -E "VIOLATION|KNOWN|OK \(|MACHINERY|violation\(s\)" /tmp/seedtest.$$.log | head -4
echo "exit=$rc"
rm -f /tmp/seedtest.$$.log
git -C /repo worktree remove --force $WT
