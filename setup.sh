#!/bin/sh
# Offline setup: nothing to build; verify the tools the checks need are present.
set -e
cd "$(dirname "$0")"
java -cp /opt/veriftools/tla/tla2tools.jar:/opt/veriftools/tla/CommunityModules-deps.jar tlc2.TLC -h >/dev/null 2>&1 || { echo "TLC not runnable"; exit 1; }
/venv/bin/python -c "import websockets, cryptography" || { echo "repo venv incomplete"; exit 1; }
mkdir -p evidence replays
echo "setup ok"
