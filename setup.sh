#!/bin/sh
# Offline setup: nothing to build; verify the tools the checks need are present.
cd "$(dirname "$0")" || exit 1
java -cp /opt/veriftools/tla/tla2tools.jar:/opt/veriftools/tla/CommunityModules-deps.jar tla2sany.SANY spec/fe/ServerSM.tla >/dev/null 2>&1 || { echo "SANY/TLC not runnable"; exit 1; }
/venv/bin/python -c "import websockets, cryptography" || { echo "repo venv incomplete"; exit 1; }
mkdir -p evidence replays
echo "setup ok"
